package verifharness

// C13 — buffer accessors are pure; Reset and Take return to a pristine buffer.

import (
	"bytes"
	"fmt"
	"strings"

	"github.com/cockroachdb/redact"
)

type C13Spec struct {
	Prefix []*Op  `json:"prefix"`
	Reset  string `json:"reset,omitempty"` // "", Reset, TakeS, TakeB
	Suffix []*Op  `json:"suffix,omitempty"`
	Grow   int    `json:"grow,omitempty"`
	MB     bool   `json:"mb,omitempty"` // ManualBuffer instead of StringBuilder
}

func init() {
	register("C13Acc", "C13", func() interface{} { return &C13Spec{} }, func(s interface{}) Result { return checkC13(s.(*C13Spec)) })
}

func isAccessor(k string) bool {
	switch k {
	case "Len", "Cap", "String", "RedactableString", "RedactableBytes", "GetMode":
		return true
	}
	return false
}

func withoutAccessors(ops []*Op) []*Op {
	var out []*Op
	for _, op := range ops {
		if !isAccessor(op.K) {
			out = append(out, op)
		}
	}
	return out
}

type hidden struct {
	st  redact.VerifBufferState
	raw []byte
}

func hiddenOf(b *redact.ManualBuffer) hidden {
	return hidden{st: b.VerifState(), raw: b.VerifRawBytes()}
}

func (h hidden) equal(o hidden, withCap bool) bool {
	if h.st.Mode != o.st.Mode || h.st.MarkerOpen != o.st.MarkerOpen || h.st.ValidUntil != o.st.ValidUntil || h.st.Len != o.st.Len {
		return false
	}
	if withCap && h.st.Cap != o.st.Cap {
		return false
	}
	return bytes.Equal(h.raw, o.raw)
}

func (h hidden) String() string {
	return fmt.Sprintf("{mode=%d open=%v validUntil=%d len=%d cap=%d raw=%s}", h.st.Mode, h.st.MarkerOpen, h.st.ValidUntil, h.st.Len, h.st.Cap, q(h.raw))
}

type heldString struct {
	at   string
	s    string // the string as obtained (may alias)
	copy string // deep copy taken at the time
}

type c13run struct {
	tgt             target
	buf             *redact.ManualBuffer
	held            []heldString
	heldB           []heldBytes
	err             error
	atOpenOrPending int
}

func newC13Run(mb bool, grow int) *c13run {
	r := &c13run{}
	if mb {
		var b redact.ManualBuffer
		r.buf = &b
		r.tgt = &mbTarget{b: &b}
	} else {
		var sb redact.StringBuilder
		r.buf = &sb.Buffer
		r.tgt = &sbTarget{b: &sb}
	}
	if grow > 0 {
		r.buf.Grow(grow)
	}
	return r
}

type heldBytes struct {
	at      string
	b, copy []byte
}

func (r *c13run) hold(at string, s string) {
	r.held = append(r.held, heldString{at: at, s: s, copy: strings.Clone(s)})
}

// run executes ops; accessors are checked for purity as they go.
func (r *c13run) run(phase string, ops []*Op) {
	for i, op := range ops {
		if r.err != nil {
			return
		}
		at := fmt.Sprintf("%s op %d (%s)", phase, i, op.K)
		special := isAccessor(op.K) || op.K == "Reset" || op.K == "TakeS" || op.K == "TakeB"
		var before hidden
		if special {
			before = hiddenOf(r.buf)
			if before.st.MarkerOpen || before.st.ValidUntil < before.st.Len {
				r.atOpenOrPending++
			}
		}
		runWriterOp(r.tgt, i, op, 0, func(_ int, op *Op, res interface{}) {
			switch v := res.(type) {
			case string:
				r.hold(at, v)
			case redact.RedactableString:
				r.hold(at, string(v))
			case redact.RedactableBytes:
				// the slice itself is kept: after Take the buffer has handed its
				// array over, and what the accessor returns is a copy ("Take...
				// saves a memory allocation compared to RedactableBytes()")
				r.heldB = append(r.heldB, heldBytes{at: at, b: v, copy: append([]byte(nil), v...)})
			case int:
				if op.K == "Len" {
					want := len(r.buf.VerifClone().RedactableString())
					if v != want {
						r.err = fmt.Errorf("%s: Len() = %d but RedactableString() has length %d (hidden state %v)", at, v, want, before)
					}
				}
			}
		})
		if isAccessor(op.K) && r.err == nil {
			after := hiddenOf(r.buf)
			if !before.equal(after, true) {
				r.err = fmt.Errorf("%s changed the hidden state: %v -> %v", at, before, after)
			}
		}
		// Len law after every step
		if r.err == nil {
			c := r.buf.VerifClone()
			if l, want := c.Len(), len(r.buf.VerifClone().RedactableString()); l != want {
				r.err = fmt.Errorf("%s: afterwards Len() = %d but RedactableString() has length %d", at, l, want)
			}
		}
	}
}

func (r *c13run) checkHeld(when string) error {
	for _, h := range r.held {
		if h.s != h.copy {
			return fmt.Errorf("string obtained at %s was %s and is %s %s", h.at, qs(h.copy), qs(h.s), when)
		}
	}
	for _, h := range r.heldB {
		if !bytes.Equal(h.b, h.copy) {
			return fmt.Errorf("bytes obtained at %s were %s and are %s %s", h.at, q(h.copy), q(h.b), when)
		}
	}
	return nil
}

func checkC13(s *C13Spec) Result {
	ledgerStart()
	res := checkC13Run(s)
	if err := ledgerVerify(); err != nil && res.Err == nil {
		res.Err = err
	}
	return res
}

func checkC13Run(s *C13Spec) Result {
	var res Result
	fail := func(err error) Result { res.Err = err; return res }

	// run A: with accessors
	a := newC13Run(s.MB, s.Grow)
	a.run("prefix", s.Prefix)
	if a.err != nil {
		return fail(a.err)
	}
	if s.Reset != "" {
		a.run("reset", []*Op{{K: s.Reset}})
		if a.err != nil {
			return fail(a.err)
		}
		// pristine: same hidden state (but capacity) as a new object
		fresh := newC13Run(s.MB, 0)
		if h, f := hiddenOf(a.buf), hiddenOf(fresh.buf); !h.equal(f, false) {
			return fail(fmt.Errorf("after %s the hidden state is %v, a new buffer has %v", s.Reset, h, f))
		}
		a.run("suffix", s.Suffix)
		if a.err != nil {
			return fail(a.err)
		}
		fresh.run("suffix(fresh)", s.Suffix)
		if fresh.err != nil {
			return fail(fresh.err)
		}
		oa, of := a.buf.VerifClone().RedactableString(), fresh.buf.VerifClone().RedactableString()
		if oa != of {
			return fail(fmt.Errorf("after %s, the suffix gives %s; on a new buffer it gives %s", s.Reset, qs(string(oa)), qs(string(of))))
		}
		if h, f := hiddenOf(a.buf), hiddenOf(fresh.buf); !h.equal(f, false) {
			return fail(fmt.Errorf("after %s and the suffix the hidden state is %v, on a new buffer %v", s.Reset, h, f))
		}
	} else {
		a.run("suffix", s.Suffix)
		if a.err != nil {
			return fail(a.err)
		}
	}
	finalA := a.buf.VerifClone().RedactableString()
	if err := a.checkHeld("at the end of the history"); err != nil {
		return fail(err)
	}

	// run B: the same history without accessor calls
	b := newC13Run(s.MB, s.Grow)
	b.run("prefix'", withoutAccessors(s.Prefix))
	if s.Reset != "" {
		b.run("reset'", []*Op{{K: s.Reset}})
	}
	b.run("suffix'", withoutAccessors(s.Suffix))
	if b.err != nil {
		return fail(b.err)
	}
	finalB := b.buf.VerifClone().RedactableString()
	if finalA != finalB {
		return fail(fmt.Errorf("with accessor calls the history yields %s, without them %s", qs(string(finalA)), qs(string(finalB))))
	}
	// the public accessor itself, last
	if pub := a.buf.RedactableString(); pub != finalA {
		return fail(fmt.Errorf("RedactableString() = %s but a clone gives %s", qs(string(pub)), qs(string(finalA))))
	}
	res.NonTrivial = a.atOpenOrPending > 0
	if res.NonTrivial {
		res.Classes = append(res.Classes, "accessor-while-open-or-pending")
	}
	if s.Reset != "" {
		res.Classes = append(res.Classes, "reset:"+s.Reset)
	}
	if s.Grow > 0 {
		res.Classes = append(res.Classes, "spare-capacity")
	}
	return res
}

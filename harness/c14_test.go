package verifharness

import (
	"fmt"
	"sync"
	"testing"

	"pgregory.net/rapid"
)

type c14Axis struct {
	flags  []string
	widths []struct {
		w    string
		star int
	}
	precs []struct {
		p    string
		star int
	}
	verbs [][]byte
}

func c14Axes() c14Axis {
	var ax c14Axis
	for m := 0; m < 32; m++ {
		f := ""
		for i, c := range "+-# 0" {
			if m&(1<<uint(i)) != 0 {
				f += string(c)
			}
		}
		ax.flags = append(ax.flags, f)
	}
	for _, w := range []string{"", "1", "7", "12", "1000"} {
		ax.widths = append(ax.widths, struct {
			w    string
			star int
		}{w, 0})
	}
	for _, sw := range []int{-7, 0, 5} {
		ax.widths = append(ax.widths, struct {
			w    string
			star int
		}{"*", sw})
	}
	for _, p := range []string{"", ".", ".0", ".1", ".5"} {
		ax.precs = append(ax.precs, struct {
			p    string
			star int
		}{p, 0})
	}
	for _, sp := range []int{0, 3} {
		ax.precs = append(ax.precs, struct {
			p    string
			star int
		}{".*", sp})
	}
	for c := byte('a'); c <= 'z'; c++ {
		ax.verbs = append(ax.verbs, []byte{c})
	}
	for c := byte('A'); c <= 'Z'; c++ {
		ax.verbs = append(ax.verbs, []byte{c})
	}
	ax.verbs = append(ax.verbs, []byte("é"), []byte("×"), []byte(startS), []byte{0xff})
	// verbs that are congruent to a letter modulo 256 / 65536 (a narrowing
	// conversion or a byte-indexed table would take them for that letter)
	ax.verbs = append(ax.verbs, []byte(string(rune('v'+0x100))), []byte(string(rune('s'+0x7500))), []byte(string(rune('d'+0x10000))))
	return ax
}

// TestEnumC14 enumerates the complete product of the property's quantifier.
func TestEnumC14(t *testing.T) {
	ax := c14Axes()
	nop := envInt("VERIF_OPERANDS", len(c14OperandNames))
	type job struct{ fi int }
	jobs := make(chan int, len(ax.flags))
	for i := range ax.flags {
		jobs <- i
	}
	close(jobs)
	var mu sync.Mutex
	var failed *C14Spec
	var failErr error
	var wg sync.WaitGroup
	for w := 0; w < 16; w++ {
		wg.Add(1)
		go func() {
			defer wg.Done()
			for fi := range jobs {
				for _, wd := range ax.widths {
					for _, pr := range ax.precs {
						for _, vb := range ax.verbs {
							for oi := 0; oi < nop; oi++ {
								mu.Lock()
								stop := failed != nil
								mu.Unlock()
								if stop {
									return
								}
								spec := &C14Spec{Dir: Directive{Flags: ax.flags[fi], Width: wd.w, Prec: pr.p, Verb: vb}, StarW: wd.star, StarP: pr.star, Operand: c14OperandNames[oi]}
								res := checks["C14Fwd"].runSafely(spec)
								col.CaseFP("C14Fwd(enum)", fingerprint([]byte(fmt.Sprint(spec.Dir.String(), wd.star, pr.star, oi))), res.NonTrivial, func() interface{} { return spec }, res.Classes...)
								if res.Err != nil {
									mu.Lock()
									if failed == nil {
										failed, failErr = spec, res.Err
									}
									mu.Unlock()
									return
								}
							}
						}
					}
				}
			}
		}()
	}
	wg.Wait()
	if failed != nil {
		enumFail(t, "C14Fwd", failed, failErr)
	}
	col.Exhaustive("C14Fwd(enum)", fmt.Sprintf("complete product: %d flag subsets x %d widths (absent, 1, 7, 12, 1000, *=-7, *=0, *=5) x %d precisions (absent, '.', 0, 1, 5, *=0, *=3) x %d verbs (52 ASCII letters, 3 multi-byte runes, 3 runes congruent to a letter modulo 256 or 65536, an invalid byte = U+FFFD) x %d operand kinds, each under fmt's State and under redact's printer",
		len(ax.flags), len(ax.widths), len(ax.precs), len(ax.verbs), nop))
}

// TestC14Fwd samples directives outside the enumerated grid (other widths,
// precisions, star values).
func TestC14Fwd(t *testing.T) {
	ax := c14Axes()
	rapidCheck(t, "C14Fwd", func(rt *rapid.T) interface{} {
		s := &C14Spec{Operand: c14OperandNames[rapid.IntRange(0, len(c14OperandNames)-1).Draw(rt, "op")]}
		s.Dir.Flags = ax.flags[rapid.IntRange(0, 31).Draw(rt, "flags")]
		switch rapid.IntRange(0, 2).Draw(rt, "wk") {
		case 1:
			s.Dir.Width = fmt.Sprint(rapid.IntRange(1, 300).Draw(rt, "w"))
		case 2:
			s.Dir.Width = "*"
			s.StarW = rapid.IntRange(-40, 40).Draw(rt, "sw")
		}
		switch rapid.IntRange(0, 3).Draw(rt, "pk") {
		case 1:
			s.Dir.Prec = "." + fmt.Sprint(rapid.IntRange(0, 40).Draw(rt, "p"))
		case 2:
			s.Dir.Prec = ".*"
			s.StarP = rapid.IntRange(-3, 40).Draw(rt, "sp")
		case 3:
			s.Dir.Prec = "."
		}
		s.Dir.Verb = ax.verbs[rapid.IntRange(0, len(ax.verbs)-1).Draw(rt, "verb")]
		switch rapid.IntRange(0, 7).Draw(rt, "runeverb") {
		case 0: // any rune
			// (ASCII characters other than letters are flags, digits, '.', '[',
			// '*', '%' or text: not verbs of a plain directive)
			if r := rapid.Rune().Draw(rt, "anyverb"); r >= 0x80 || (r >= 'a' && r <= 'z') || (r >= 'A' && r <= 'Z') {
				s.Dir.Verb = B(string(r))
			}
		case 1: // a rune congruent to an ASCII letter modulo 256 or 65536
			l := rune(pick(rt, "letter", []string{"v", "s", "d", "x", "q", "X", "t", "e", "p", "T", "U", "c", "w", "L", "B"})[0])
			if rapid.Bool().Draw(rt, "hi") {
				l += rune(rapid.IntRange(1, 16).Draw(rt, "plane")) << 16
			} else {
				l += rune(rapid.IntRange(1, 255).Draw(rt, "page")) << 8
			}
			s.Dir.Verb = B(string(l))
		}
		if (s.Dir.Width == "*" || s.Dir.Prec == ".*") && rapid.IntRange(0, 9).Draw(rt, "oddverb") == 4 {
			// after a '*' fmt takes the next byte as the verb whatever it is: a
			// digit, a flag character, '*'
			v := []string{"5", "0", "#", "+", "-", " ", "*"}[rapid.IntRange(0, 6).Draw(rt, "oddv")]
			s.Dir.Verb = B(v)
			if s.Dir.Width == "*" && rapid.Bool().Draw(rt, "zerow") {
				s.StarW = 0
			}
			if v == "*" && s.Dir.Prec == "." {
				s.Dir.Prec = "" // (".*" would be a star precision)
			}
		}
		if s.Dir.Width == "*" && rapid.IntRange(0, 3).Draw(rt, "stark") == 0 {
			s.StarKind = c14StarKinds[rapid.IntRange(0, len(c14StarKinds)-1).Draw(rt, "starkind")]
			if s.StarKind == "uint8" {
				s.StarW = rapid.IntRange(0, 40).Draw(rt, "sw8")
			}
		}
		if rapid.IntRange(0, 2).Draw(rt, "sibk") == 0 {
			s.Sib = c14SiblingNames[rapid.IntRange(0, len(c14SiblingNames)-1).Draw(rt, "sib")]
		}
		if kf1(s) && knownOpen("KF1") {
			col.Excluded("KF1: verb " + string(s.Dir.Verb) + " after '*'")
			s.Dir.Verb = B("v")
		}
		return s
	})
}

// TestEnumC14Big: widths and precisions at the limits (1e6 is the largest
// fmt accepts, literal or through '*') and large values that are congruent
// to small ones modulo 65536, interleaved with those small ones (the result
// must not depend on which directive was forwarded earlier in the process).
func TestEnumC14Big(t *testing.T) {
	widths := []struct {
		w    string
		star int
	}{{"7", 0}, {"65543", 0}, {"12", 0}, {"65548", 0}, {"4464", 0}, {"70000", 0}, {"*", 65543}, {"999999", 0}, {"1000000", 0}, {"*", 1000000}, {"9", 0}, {"65545", 0}, {"131081", 0}}
	precs := []struct {
		p    string
		star int
	}{{"", 0}, {".3", 0}, {".65539", 0}, {".*", 65539}, {".1000000", 0}}
	n := 0
	for _, fl := range []string{"", "-", "+"} {
		for _, vb := range []string{"d", "x", "v", "s"} {
			for _, pr := range precs {
				for _, wd := range widths {
					if pr.p == ".1000000" && (wd.w != "7" || fl != "" || vb == "x") {
						continue
					}
					big := wd.w == "999999" || wd.w == "1000000" || wd.star == 1000000
					if big && (fl != "" || (vb != "d" && vb != "s") || (pr.p != "" && pr.p != ".3")) {
						continue // (1 MB outputs: a few combinations only)
					}
					for _, op := range []string{"int", "string"} {
						if (pr.p == ".1000000" || pr.star > 0 || pr.p == ".65539") && op == "int" && vb != "d" {
							continue
						}
						spec := &C14Spec{Dir: Directive{Flags: fl, Width: wd.w, Prec: pr.p, Verb: B(vb)}, StarW: wd.star, StarP: pr.star, Operand: op}
						res := checks["C14Fwd"].runSafely(spec)
						n++
						col.CaseFP("C14Fwd(big)", fingerprint([]byte(fmt.Sprint(spec.Dir.String(), wd.star, pr.star, op))), true, func() interface{} { return spec })
						if res.Err != nil {
							enumFail(t, "C14Fwd", spec, res.Err)
						}
					}
				}
			}
		}
	}
	col.Exhaustive("C14Fwd(big)", fmt.Sprintf("%d directives with widths/precisions up to 1e6 (literal and '*') and values congruent modulo 65536, interleaved", n))
}

// kf1: the combinations of known finding KF1 - MakeFormat cannot express a
// digit verb at all, nor a flag character or '*' as the verb when it writes
// neither a width nor a precision before it.
func kf1(s *C14Spec) bool {
	v := string(s.Dir.Verb)
	switch v {
	case "5", "0":
		return true
	case "#", "+", "-", " ", "*":
	default:
		return false
	}
	noWidth := s.Dir.Width == ""
	if s.Dir.Width == "*" {
		switch s.StarKind {
		case "", "uint8":
			noWidth = s.StarW == 0
		default:
			noWidth = true // (out of range: BADWIDTH, no width)
		}
	}
	noPrec := s.Dir.Prec == "" || (s.Dir.Prec == ".*" && s.StarP < 0)
	return noWidth && noPrec
}

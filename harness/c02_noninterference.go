package verifharness

// C02 — redacted output is independent of unsafe data (non-interference).

import (
	"bytes"
	"fmt"

	"github.com/cockroachdb/redact"
)

func init() {
	register("C02Pair", "C02", func() interface{} { return &FmtCase{} }, func(s interface{}) Result { return checkC02(s.(*FmtCase)) })
}

// containsPrivateUse: a rune of U+100000..U+1000C7 (plane-16 private use;
// tagged onto unsafe leaves of instantiation A; no public text contains one
// and no integer of the generators' pools renders as one under %c).
func containsPrivateUse(b []byte) bool {
	for i := 0; i+4 <= len(b); i++ {
		if b[i] == 0xF4 && b[i+1] == 0x80 && b[i+2] >= 0x80 && b[i+2] <= 0x83 {
			return true
		}
	}
	return false
}

func checkC02(c *FmtCase) Result {
	var res Result
	a := runCase(c, 0)
	b := runCase(c, 1)
	format := c.Format()
	if a.panicked != b.panicked {
		res.Err = fmt.Errorf("%s(%s, ...): instantiation A panicked=%v (%v), B panicked=%v (%v)", c.Route, qs(format), a.panicked, a.panicVal, b.panicked, b.panicVal)
		return res
	}
	if a.panicked {
		res.Classes = append(res.Classes, "both-panic")
		return res
	}
	ra := []byte(redact.RedactableString(a.out).Redact())
	rb := []byte(redact.RedactableString(b.out).Redact())
	differ := !bytes.Equal(a.out, b.out)
	res.NonTrivial = differ && !plainTopLevelV(c)
	// histogram: (operand kind x verb) of structured directives
	if !c.HasRaw {
		ai := 0
		for _, s := range c.Segs {
			if s.Dir == nil || string(s.Dir.Verb) == "%" {
				continue
			}
			if s.Dir.Width == "*" {
				ai++
			}
			if s.Dir.Prec == ".*" {
				ai++
			}
			if ai < len(c.Args) {
				res.Classes = append(res.Classes, kindClass(c.Args[ai].K)+":%"+string(s.Dir.Verb))
			}
			ai++
		}
	} else {
		res.Classes = append(res.Classes, "chaotic-format")
	}
	if !bytes.Equal(ra, rb) {
		res.Err = fmt.Errorf("%s(%s, ...): the two instantiations of the unsafe leaves give different redacted outputs:\n A: %s -> %s\n B: %s -> %s",
			c.Route, qs(format), q(a.out), q(ra), q(b.out), q(rb))
		return res
	}
	if !WF(a.out) || !WF(b.out) {
		res.Err = fmt.Errorf("%s(%s, ...): output not well-formed: %s / %s", c.Route, qs(format), q(a.out), q(b.out))
		return res
	}
	if containsPrivateUse(ra) {
		res.Err = fmt.Errorf("%s(%s, ...): a private-use rune that only occurs in unsafe leaves survives redaction: %s -> %s", c.Route, qs(format), q(a.out), q(ra))
		return res
	}
	return res
}

func kindClass(k string) string {
	switch k {
	case "str", "nstr", "pstr":
		return "string"
	case "bytes", "nbytes", "barr":
		return "bytes"
	case "int", "int8", "int16", "int32", "int64", "nint", "dur":
		return "int"
	case "uint", "uint8", "uint16", "uint32", "uint64", "uintptr":
		return "uint"
	case "f32", "f64", "nfloat":
		return "float"
	case "c64", "c128":
		return "complex"
	case "bool", "nbool":
		return "bool"
	case "pint", "chan", "func", "uptr":
		return "pointer"
	case "gostr", "gostr!", "sgostr", "gostrstringer":
		return "gostringer"
	case "fmter", "errfmter":
		return "formatter"
	case "stringer", "pstringer", "sstringer", "istringer", "err", "perr", "stderr", "serr", "ierr", "errwrap", "errstringer":
		return "stringer/error"
	case "islice", "pislice", "iarr2", "sslice", "intslice", "bslice", "errslice", "strgslice", "msi", "pmsi", "msint", "mis", "mii",
		"structA", "pstructA", "structB", "pstructB", "structC":
		return "container"
	}
	return "other"
}

// plainTopLevelV: every directive is bare %v (or the route is Sprint) and
// every operand is a top-level basic value.
func plainTopLevelV(c *FmtCase) bool {
	if c.HasRaw {
		return false
	}
	if c.isPrintf() {
		for _, s := range c.Segs {
			if s.Dir != nil && (!s.Dir.bare() || string(s.Dir.Verb) != "v") {
				return false
			}
		}
	}
	for _, a := range c.Args {
		if !isBasicKind(a.K) && a.K != "bytes" {
			return false
		}
	}
	return true
}

package verifharness

// gen_fmt.go: directives, structured and chaotic formats (DESIGN §3.4) and
// the print case spec shared by the format-driven checks.

import (
	"fmt"
	"strings"

	"github.com/cockroachdb/redact"
	"pgregory.net/rapid"
)

// Directive: %[flags][width][.prec]verb. Width/Prec "*" consume an int operand.
type Directive struct {
	Flags string `json:"flags,omitempty"`
	Width string `json:"width,omitempty"` // "", "12", "*"
	Prec  string `json:"prec,omitempty"`  // "", ".", ".3", ".*"
	Verb  B      `json:"verb"`            // the verb's bytes (ASCII letter, multi-byte rune, invalid byte)
}

func (d *Directive) String() string {
	return "%" + d.Flags + d.Width + d.Prec + string(d.Verb)
}

func (d *Directive) bare() bool {
	return d.Flags == "" && d.Width == "" && d.Prec == ""
}

func (d *Directive) hasWP() bool { return d.Width != "" || d.Prec != "" }

// Seg is a literal or a directive with the number of operands it consumes.
type Seg struct {
	Lit B          `json:"lit,omitempty"`
	Dir *Directive `json:"dir,omitempty"`
}

// FmtCase is one print call.
type FmtCase struct {
	Route   string   `json:"route"`          // Sprint, Sprintf, Fprint, Fprintf, HelperForErrorf, Sprintfn...
	Segs    []Seg    `json:"segs,omitempty"` // structured format
	Raw     B        `json:"raw,omitempty"`  // chaotic format (used if Segs is empty and HasRaw)
	HasRaw  bool     `json:"hasRaw,omitempty"`
	Args    []*Val   `json:"args"`
	Reg     []string `json:"reg,omitempty"`  // registered safe types (configuration)
	Hook    []*Op    `json:"hook,omitempty"` // error hook script (configuration), nil: no hook
	HasHook bool     `json:"hasHook,omitempty"`
}

func (c *FmtCase) Format() string {
	if c.HasRaw {
		return string(c.Raw)
	}
	var sb strings.Builder
	for _, s := range c.Segs {
		if s.Dir != nil {
			sb.WriteString(s.Dir.String())
		} else {
			sb.Write(s.Lit)
		}
	}
	return sb.String()
}

func (c *FmtCase) isPrintf() bool {
	switch c.Route {
	case "Sprint", "Fprint":
		return false
	}
	return true
}

const asciiVerbs = "vsdqxXtbcoOUeEfFgGpTw"

var oddVerbs = [][]byte{[]byte("é"), []byte("×"), []byte(startS), []byte(endS), {0xE2}, {0xFF}, []byte("!"), []byte("z"), []byte("Z"), []byte("y"), []byte("\uFFFD")}

type fmtConfig struct {
	noW           bool // exclude %w
	noZeroMinus   bool // exclude '0' together with '-' (fmt semantics changed across releases)
	noStar        bool
	validVerbs    bool   // only ASCII letter verbs of asciiVerbs (minus exclusions)
	noTp          bool   // exclude %T and %p
	bytesAlpha    bool   // literals over the byte alphabet
	verbs         string // if set, draw verbs from this string
	noHugeNumbers bool   // no widths/precisions around 1e6
}

func (fc *fmtConfig) genDirective(rt *rapid.T) *Directive {
	d := &Directive{}
	// flags
	if rapid.IntRange(0, 2).Draw(rt, "hasflags") == 0 {
		n := rapid.IntRange(1, 3).Draw(rt, "nflags")
		for i := 0; i < n; i++ {
			f := "+-# 0"[rapid.IntRange(0, 4).Draw(rt, "flag")]
			if !strings.ContainsRune(d.Flags, rune(f)) {
				d.Flags += string(f)
			}
		}
		if fc.noZeroMinus && strings.Contains(d.Flags, "0") && strings.Contains(d.Flags, "-") {
			d.Flags = strings.ReplaceAll(d.Flags, "0", "")
		}
	}
	switch rapid.IntRange(0, 7).Draw(rt, "width") {
	case 0:
		d.Width = fmt.Sprint(rapid.IntRange(1, 12).Draw(rt, "w"))
	case 1:
		d.Width = []string{"1", "2", "5", "20", "40", "63", "64", "65", "130", "300"}[rapid.IntRange(0, 9).Draw(rt, "w2")]
	case 2:
		if !fc.noStar {
			d.Width = "*"
		}
	}
	switch rapid.IntRange(0, 7).Draw(rt, "prec") {
	case 0:
		d.Prec = "." + fmt.Sprint(rapid.IntRange(0, 8).Draw(rt, "p"))
		if rapid.IntRange(0, 9).Draw(rt, "pbig") == 0 {
			d.Prec = []string{".20", ".64", ".100"}[rapid.IntRange(0, 2).Draw(rt, "pb")]
		}
	case 1:
		d.Prec = "."
	case 2:
		if !fc.noStar {
			d.Prec = ".*"
		}
	}
	// rarely: numbers at the limits of what the format parser accepts (fmt
	// treats a width or precision above 1e6 as an error; the outputs are ~1 MB)
	if !fc.noHugeNumbers && rapid.IntRange(0, 2999).Draw(rt, "hugenum") == 1777 {
		n := []string{"999999", "1000000", "1000001", "1000009", "100000000000"}[rapid.IntRange(0, 4).Draw(rt, "hugen")]
		// (widths only: a float rendered with a precision of 1e6 keeps
		// strconv busy for seconds)
		d.Width = n
	}
	d.Verb = fc.genVerb(rt)
	return d
}

func (fc *fmtConfig) genVerb(rt *rapid.T) []byte {
	if fc.verbs != "" {
		return []byte{fc.verbs[rapid.IntRange(0, len(fc.verbs)-1).Draw(rt, "verbx")]}
	}
	if !fc.validVerbs && rapid.IntRange(0, 9).Draw(rt, "odd") == 0 {
		return oddVerbs[rapid.IntRange(0, len(oddVerbs)-1).Draw(rt, "oddv")]
	}
	for {
		weighted := "vvvvssddqxX" + asciiVerbs
		v := weighted[rapid.IntRange(0, len(weighted)-1).Draw(rt, "verb")]
		if fc.noW && v == 'w' {
			continue
		}
		if fc.noTp && (v == 'T' || v == 'p') {
			continue
		}
		return []byte{v}
	}
}

func (fc *fmtConfig) genLit(rt *rapid.T) []byte {
	var b []byte
	if fc.bytesAlpha {
		b = genBytes(rt, "lit", 3)
	} else {
		b = genText(rt, "lit", 3)
	}
	// '%' in a structured literal is written as "%%"
	return []byte(strings.ReplaceAll(string(b), "%", "%%"))
}

// starOperand: the int operand of a '*' (public).
func genStarOperand(rt *rapid.T) *Val {
	switch rapid.IntRange(0, 10).Draw(rt, "star") {
	case 10:
		// integers of every kind at the edges of their range
		return []*Val{{K: "uint64", I: -1}, {K: "uint64", I: -1000}, {K: "uint", I: -7}, {K: "uintptr", I: -1}, {K: "uint64", I: -9223372036854775808},
			{K: "int64", I: 9223372036854775807}, {K: "int64", I: -9223372036854775808}, {K: "int32", I: -2147483648}, {K: "uint32", I: 4294967295}, {K: "nint", I: 3}, {K: "nuint8", I: 6}, {K: "nuint8", I: 0}, {K: "nuint", I: 9}}[rapid.IntRange(0, 12).Draw(rt, "staredge")]
	case 0:
		return &Val{K: "int", I: int64(-rapid.IntRange(1, 12).Draw(rt, "sneg"))}
	case 1:
		return &Val{K: "int", I: 0}
	case 2:
		return &Val{K: "int", I: 2000000} // too large -> BADWIDTH/BADPREC
	case 3:
		return &Val{K: "str", S: B("notint")} // BADWIDTH
	case 4:
		return &Val{K: "uint8", I: int64(rapid.IntRange(0, 12).Draw(rt, "su8"))}
	default:
		return &Val{K: "int", I: int64(rapid.IntRange(1, 12).Draw(rt, "spos"))}
	}
}

// chaotic format tokens
var chaosTokens = []string{"%", "%", "%", "%%", "+", "-", "#", " ", "0", "1", "2", "9", "12", ".", "*", "[", "]", "[1]", "[2]", "[3]", "[0]", "[9]", "[1", "[x]",
	"v", "s", "d", "q", "x", "X", "t", "b", "c", "o", "O", "U", "e", "E", "f", "F", "g", "G", "p", "T", "w", "z", "!",
	"a", "lit ", "\n", startS, endS, "×", "é", "世", "\xe2", "\x80", "\xb9", "\xff", "%v", "%s", "%d", "%+v", "%#v", "%x", "%5s", "%-5d", "%.2f", "%*d", "%.*s", "%[2]v", "%[1]*d",
	// argument indexes and numbers in unusual spellings
	"[+1]", "[-1]", "[ 1]", "[01]", "[00000002]", "00000003", ".00000003", "0000000012", "%[+1]d", "%.00000002f", "%[1]*[+2]d"}

// genIndexedDirective draws a directive with explicit argument indexes at
// any of the three places fmt accepts them: before a '*' width, before a
// '*' precision and before the verb (valid, zero, out of range).
func (fc *fmtConfig) genIndexedDirective(rt *rapid.T) string {
	idx := func(label string) string {
		switch rapid.IntRange(0, 5).Draw(rt, label) {
		case 0, 1:
			return ""
		case 2:
			return "[" + string(rune('0'+rapid.IntRange(0, 6).Draw(rt, label+"n"))) + "]"
		default:
			return "[" + string(rune('1'+rapid.IntRange(0, 3).Draw(rt, label+"n"))) + "]"
		}
	}
	s := "%"
	if rapid.IntRange(0, 3).Draw(rt, "ixflag") == 0 {
		f := "+-# 0"[rapid.IntRange(0, 4).Draw(rt, "ixflagc")]
		if !(fc.noZeroMinus && f == '0') {
			s += string(f)
		}
	}
	switch rapid.IntRange(0, 3).Draw(rt, "ixw") {
	case 0:
		s += idx("ixwi") + "*"
	case 1:
		s += string(rune('1' + rapid.IntRange(0, 8).Draw(rt, "ixwd")))
	}
	switch rapid.IntRange(0, 3).Draw(rt, "ixp") {
	case 0:
		s += "." + idx("ixpi") + "*"
	case 1:
		s += "." + string(rune('0'+rapid.IntRange(0, 5).Draw(rt, "ixpd")))
	}
	s += idx("ixvi")
	verbs := "vvsdxfqv"
	return s + string(verbs[rapid.IntRange(0, len(verbs)-1).Draw(rt, "ixverb")])
}

func (fc *fmtConfig) genChaoticFormat(rt *rapid.T) []byte {
	n := rapid.IntRange(0, 10).Draw(rt, "nct")
	var out []byte
	for i := 0; i < n; i++ {
		if rapid.IntRange(0, 4).Draw(rt, "indexed") == 0 {
			out = append(out, fc.genIndexedDirective(rt)...)
			continue
		}
		tok := chaosTokens[rapid.IntRange(0, len(chaosTokens)-1).Draw(rt, "ct")]
		if !fc.bytesAlpha && (tok == "\xe2" || tok == "\x80" || tok == "\xb9" || tok == "\xff") {
			tok = "é"
		}
		if fc.noW && tok == "w" {
			tok = "v"
		}
		out = append(out, tok...)
	}
	if fc.noZeroMinus {
		out = dropZeroMinus(out)
	}
	return out
}

// dropZeroMinus removes '0' flags from directives that also carry '-'
// (fmt's Flag('0') semantics with '-' changed across Go releases). It is
// conservative: within each run of flag characters after a '%', if both
// occur the zeros are dropped.
func dropZeroMinus(f []byte) []byte {
	out := make([]byte, 0, len(f))
	for i := 0; i < len(f); i++ {
		out = append(out, f[i])
		if f[i] != '%' {
			continue
		}
		j := i + 1
		for j < len(f) && strings.IndexByte("+-# 0", f[j]) >= 0 {
			j++
		}
		flags := string(f[i+1 : j])
		if strings.Contains(flags, "-") {
			flags = strings.ReplaceAll(flags, "0", "")
		}
		out = append(out, flags...)
		i = j - 1
	}
	return out
}

// ---- running a case ---------------------------------------------------------

// printResult is what one route produced.
type printResult struct {
	out      []byte
	err      error    // HelperForErrorf's error / Fprint's error
	n        int      // Fprint's n
	writes   [][]byte // Fprint: the Write calls seen
	panicked bool
	panicVal interface{}
}

func callRedact(route, format string, args []interface{}) (r printResult) {
	defer func() {
		if p := recover(); p != nil {
			r.panicked = true
			r.panicVal = p
		}
	}()
	switch route {
	case "Sprint":
		r.out = []byte(redact.Sprint(args...))
	case "Sprintf":
		r.out = []byte(redact.Sprintf(format, args...))
	case "Fprint":
		w := &recWriter{}
		r.n, r.err = redact.Fprint(w, args...)
		r.writes = w.calls
		r.out = concat(w.calls)
	case "Fprintf":
		w := &recWriter{}
		r.n, r.err = redact.Fprintf(w, format, args...)
		r.writes = w.calls
		r.out = concat(w.calls)
	case "HelperForErrorf":
		s, e := redact.HelperForErrorf(format, args...)
		r.out, r.err = []byte(s), e
	case "SBPrint":
		var sb redact.StringBuilder
		sb.Print(args...)
		r.out = []byte(sb.RedactableString())
	case "SBPrintf":
		var sb redact.StringBuilder
		sb.Printf(format, args...)
		r.out = []byte(sb.RedactableString())
	case "SBPrintBytes":
		var sb redact.StringBuilder
		sb.Printf(format, args...)
		r.out = []byte(sb.RedactableBytes())
	case "SprintfnPrint":
		r.out = []byte(redact.Sprintfn(func(w redact.SafePrinter) { w.Print(args...) }))
	case "SprintfnPrintf":
		r.out = []byte(redact.Sprintfn(func(w redact.SafePrinter) { w.Printf(format, args...) }))
	default:
		panic("HARNESS: unknown route " + route)
	}
	return r
}

func callFmt(route, format string, args []interface{}) (r printResult) {
	defer func() {
		if p := recover(); p != nil {
			r.panicked = true
			r.panicVal = p
		}
	}()
	switch route {
	case "Sprint", "Fprint", "SBPrint", "SprintfnPrint":
		r.out = []byte(fmt.Sprint(args...))
	default:
		r.out = []byte(fmt.Sprintf(format, args...))
	}
	return r
}

func concat(bs [][]byte) []byte {
	var out []byte
	for _, b := range bs {
		out = append(out, b...)
	}
	return out
}

var printRoutes = []string{"Sprint", "Sprintf", "Sprintf", "Sprintf", "Fprint", "Fprintf", "HelperForErrorf", "SBPrint", "SBPrintf", "SBPrintBytes", "SprintfnPrint", "SprintfnPrintf"}

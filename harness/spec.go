package verifharness

// spec.go: case specs are plain JSON-serialisable data (DESIGN §2); this
// file defines them and the interpreter that builds real Go values and
// runs scripts from them.

import (
	"errors"
	"fmt"
	"io"
	"math"
	"reflect"
	"strconv"
	"time"
	"unicode/utf8"
	"unsafe"

	"github.com/cockroachdb/redact"
	ri "github.com/cockroachdb/redact/interfaces"
)

// Val is a value spec. Unsafe leaves carry two contents (S/T, I/J, F/G)
// for the two instantiations of C02; public parts carry one (T nil => S).
type Val struct {
	K    string  `json:"k"`
	S    B       `json:"s,omitempty"`
	T    B       `json:"t,omitempty"`
	HasT bool    `json:"hasT,omitempty"`
	I    int64   `json:"i,omitempty"`
	J    int64   `json:"j,omitempty"`
	F    string  `json:"f,omitempty"` // float (strconv syntax, incl. NaN, +Inf, -Inf, -0)
	G    string  `json:"g,omitempty"`
	Sub  []*Val  `json:"sub,omitempty"`
	Keys []*Val  `json:"keys,omitempty"`
	Ops  []*Op   `json:"ops,omitempty"`
	Pr   *PrintS `json:"pr,omitempty"`
}

// Op is one step of a script: a SafeWriter / io.Writer / accessor call,
// or a Formatter action.
type Op struct {
	K    string `json:"k"`
	S    B      `json:"s,omitempty"`
	T    B      `json:"t,omitempty"`
	HasT bool   `json:"hasT,omitempty"`
	I    int64  `json:"i,omitempty"`
	J    int64  `json:"j,omitempty"`
	F    string `json:"f,omitempty"`
	Args []*Val `json:"args,omitempty"`
	Ops  []*Op  `json:"ops,omitempty"` // nested script (Formatter "SP": SafePrinter ops)
}

// PrintS is a print call: Sprint(args...) if Fmt is nil, else Sprintf.
type PrintS struct {
	HasFmt bool   `json:"hasFmt,omitempty"`
	Fmt    B      `json:"fmt,omitempty"`
	Args   []*Val `json:"args,omitempty"`
}

func (v *Val) str(inst int) string {
	if inst == 1 && v.HasT {
		return string(v.T)
	}
	return string(v.S)
}
func (v *Val) bytes(inst int) []byte {
	if inst == 1 && v.HasT {
		return append([]byte(nil), v.T...)
	}
	if v.S == nil {
		return nil
	}
	return append([]byte(nil), v.S...)
}
func (v *Val) int(inst int) int64 {
	if inst == 1 && v.HasT {
		return v.J
	}
	return v.I
}
func (v *Val) float(inst int) float64 {
	s := v.F
	if inst == 1 && v.HasT {
		s = v.G
	}
	return parseFloat(s)
}
func (o *Op) str(inst int) string {
	if inst == 1 && o.HasT {
		return string(o.T)
	}
	return string(o.S)
}
func (o *Op) int(inst int) int64 {
	if inst == 1 && o.HasT {
		return o.J
	}
	return o.I
}

func parseFloat(s string) float64 {
	switch s {
	case "":
		return 0
	case "-0":
		return math.Copysign(0, -1)
	case "-NaN":
		// a NaN whose sign bit is set (strconv writes no sign for it)
		return math.Copysign(math.NaN(), -1)
	}
	f, err := strconv.ParseFloat(s, 64)
	if err != nil {
		return 0
	}
	return f
}

func fmtFloatSpec(f float64) string {
	if f == 0 && math.Signbit(f) {
		return "-0"
	}
	return strconv.FormatFloat(f, 'g', -1, 64)
}

// builder holds per-case state for Build (pointer identity for C12 etc.).
type builder struct {
	inst int
	// cache: if non-nil, a spec node (by pointer) is built only once, so that
	// two shapes sharing nodes print the same objects (same addresses)
	cache map[*Val]interface{}
}

// Build turns a spec into a Go value for instantiation inst (0 or 1).
func Build(v *Val, inst int) interface{} {
	return (&builder{inst: inst}).build(v)
}

func BuildAll(vs []*Val, inst int) []interface{} {
	out := make([]interface{}, len(vs))
	for i, v := range vs {
		out[i] = Build(v, inst)
	}
	return out
}

// buildAllWith builds with a given builder (shared cache).
func buildAllWith(b *builder, vs []*Val) []interface{} {
	out := make([]interface{}, len(vs))
	for i, v := range vs {
		out[i] = b.build(v)
	}
	return out
}

func (b *builder) sub(v *Val, i int) interface{} {
	if i < len(v.Sub) {
		return b.build(v.Sub[i])
	}
	return nil
}

func (b *builder) pan(v *Val) panicSpec {
	// panicking variants have K suffix "!" ; payload = Sub[0]
	payload := b.sub(v, 0)
	return func() interface{} { return payload }
}

func (b *builder) build(v *Val) interface{} {
	if v == nil {
		return nil
	}
	if b.cache != nil {
		if x, ok := b.cache[v]; ok {
			return x
		}
		x := b.build1(v)
		b.cache[v] = x
		return x
	}
	return b.build1(v)
}

func (b *builder) build1(v *Val) interface{} {
	in := b.inst
	switch v.K {
	// ---- plain kinds
	case "str":
		return v.str(in)
	case "nstr":
		return NStr(v.str(in))
	case "bytes":
		return v.bytes(in)
	case "nbytes":
		return NBytes(v.bytes(in))
	case "barr":
		// the first runes that fit entirely (a cut through a rune would turn a
		// valid-UTF-8 payload into an invalid one)
		var a [3]byte
		src := v.bytes(in)
		if !utf8.Valid(v.S) {
			// invalid UTF-8 anyway (byte alphabet): the first three bytes; decided
			// on instantiation A so that both instantiations are cut alike
			copy(a[:], src)
			return a
		}
		n := 0
		for n < len(src) {
			_, sz := utf8.DecodeRune(src[n:])
			if n+sz > 3 {
				break
			}
			n += sz
		}
		copy(a[:], src[:n])
		return a
	case "bool":
		return v.int(in) != 0
	case "nbool":
		return NBool(v.int(in) != 0)
	case "int":
		return int(v.int(in))
	case "int8":
		return int8(v.int(in))
	case "int16":
		return int16(v.int(in))
	case "int32":
		return int32(v.int(in))
	case "int64":
		return v.int(in)
	case "uint":
		return uint(v.int(in))
	case "uint8":
		return uint8(v.int(in))
	case "uint16":
		return uint16(v.int(in))
	case "uint32":
		return uint32(v.int(in))
	case "uint64":
		return uint64(v.int(in))
	case "uintptr":
		return uintptr(v.int(in))
	case "nint":
		return NInt(v.int(in))
	case "nuint8":
		return NUint8(v.int(in))
	case "nuint":
		return NUint(v.int(in))
	case "bigslice":
		return []BigRec{{S: v.str(in)}, {A: [20]int64{v.int(in)}, S: "b"}}
	case "pbigstruct":
		return &struct{ R BigRec }{BigRec{S: v.str(in)}}
	case "f32":
		return float32(v.float(in))
	case "f64":
		return v.float(in)
	case "nfloat":
		return NFloat(v.float(in))
	case "c64":
		return complex(float32(v.float(in)), float32(v.int(in)))
	case "c128":
		return complex(v.float(in), float64(v.int(in))/4)
	case "dur":
		return time.Duration(v.int(in))
	case "nil":
		return nil
	case "nilptr":
		return (*int)(nil)
	case "nilstringer":
		return (*StringerP)(nil)
	case "nilerr":
		return (*ErrP)(nil)
	case "nilmap":
		return map[string]int(nil)
	case "nilslice":
		return []interface{}(nil)
	case "nilfunc":
		return (func())(nil)
	case "pstr":
		s := v.str(in)
		return &s
	case "pint":
		i := int(v.int(in))
		return &i
	case "chan":
		return make(chan int)
	case "func":
		return func() {}
	case "uptr":
		x := new(int)
		return unsafe.Pointer(x)
	case "rv":
		return reflect.ValueOf(b.sub(v, 0))
	case "rvzero":
		return reflect.Value{}
	case "rviface":
		// a reflect.Value of Kind Interface (an addressable interface variable)
		x := b.sub(v, 0)
		return reflect.ValueOf(&x).Elem()
	case "rvfield":
		// a reflect.Value obtained from an unexported field (CanInterface is false)
		return reflect.ValueOf(StructA{z: b.sub(v, 0)}).Field(2)
	case "rvfieldr":
		// ... of RedactableString type
		r, _ := b.sub(v, 0).(redact.RedactableString)
		return reflect.ValueOf(StructB{r: r}).Field(4)

	// ---- method-bearing kinds
	case "stringer":
		return StringerV{S: v.str(in)}
	case "stringer!":
		return StringerV{S: v.str(in), pan: b.pan(v)}
	case "pstringer":
		return &StringerP{S: v.str(in)}
	case "pstringer!":
		return &StringerP{S: v.str(in), pan: b.pan(v)}
	case "err":
		return ErrV{S: v.str(in)}
	case "err!":
		return ErrV{S: v.str(in), pan: b.pan(v)}
	case "perr":
		return &ErrP{S: v.str(in)}
	case "perr!":
		return &ErrP{S: v.str(in), pan: b.pan(v)}
	case "standin":
		e, _ := b.sub(v, 0).(error)
		return StandIn{err: e}
	case "stderr": // errors.New
		return errors.New(v.str(in))
	case "errwrap":
		var cause error
		if c, ok := b.sub(v, 0).(error); ok {
			cause = c
		}
		return &ErrWrap{Msg: v.str(in), Cause: cause}
	case "errwrapv":
		var cause error
		if c, ok := b.sub(v, 0).(error); ok {
			cause = c
		}
		return ErrWrapV{Msg: v.str(in), Cause: cause, tags: []string{"t"}}
	case "errstringer":
		return ErrStringer{S: v.str(in)}
	case "gostr":
		return GoStringerV{S: v.str(in)}
	case "gostr!":
		return GoStringerV{S: v.str(in), pan: b.pan(v)}
	case "gostrstringer":
		return GoStrStringer{S: v.str(in)}
	case "fmter":
		return &FormatterV{run: b.formatterScript(v.Ops)}
	case "errfmter":
		return &ErrFormatter{S: v.str(in), run: b.formatterScript(v.Ops)}
	case "sstringer":
		return StrStringer(v.str(in))
	case "istringer":
		return IntStringer(v.int(in))
	case "serr":
		return StrErr(v.str(in))
	case "ierr":
		return IntErr(v.int(in))
	case "sgostr":
		return StrGoStringer(v.str(in))

	// ---- SafeValue-marked
	case "svstr":
		return SVStr(v.str(in))
	case "svint":
		return SVInt(v.int(in))
	case "svfloat":
		return SVFloat(v.float(in))
	case "svstringer":
		return SVStringer{S: v.str(in)}
	case "svsstringer":
		return SVStrStringer(v.str(in))
	case "sverr":
		return SVErr{S: v.str(in)}
	case "svstruct":
		return SVStruct{A: v.str(in), B: int(v.int(in))}

	// ---- registrable pool
	case "regstr":
		return RegStr(v.str(in))
	case "regint":
		return RegInt(v.int(in))
	case "regstruct":
		return RegStruct{A: v.str(in), B: int(v.int(in))}
	case "regstringer":
		return RegStringer(v.str(in))
	case "regslice":
		if v.int(in) == 0 {
			return RegSlice(nil)
		}
		return RegSlice{int(v.int(in)), 2}
	case "SafeBytes":
		if v.S == nil || len(v.S) == 0 {
			return ri.SafeBytes(nil)
		}
		return ri.SafeBytes(v.bytes(in))
	case "svslice":
		if len(v.S) == 0 {
			return SVSlice(nil)
		}
		return SVSlice{v.str(in), "x"}
	case "svmap":
		if v.int(in) == 0 {
			return SVMap(nil)
		}
		return SVMap{"k": int(v.int(in))}

	// ---- redact-specific
	case "SafeString":
		return redact.SafeString(v.str(in))
	case "SafeInt":
		return redact.SafeInt(v.int(in))
	case "SafeUint":
		return redact.SafeUint(uint64(v.int(in)))
	case "SafeFloat":
		return redact.SafeFloat(v.float(in))
	case "SafeRune":
		return redact.SafeRune(rune(v.int(in)))
	case "safe":
		return redact.Safe(b.sub(v, 0))
	case "unsafe":
		return redact.Unsafe(b.sub(v, 0))
	case "safefmt":
		return SafeFmtV{run: b.printerScript(v.Ops)}
	case "psafefmt":
		return &SafeFmtP{run: b.printerScript(v.Ops)}
	case "errsafefmt":
		return &ErrSafeFmt{S: v.str(in), run: b.printerScript(v.Ops)}
	case "safemsg":
		return SafeMsgV{S: v.str(in)}
	case "safemsg!":
		return SafeMsgV{S: v.str(in), pan: b.pan(v)}
	case "errsafemsg":
		return ErrSafeMsg{S: v.str(in)}
	case "rs":
		return b.print(v.Pr)
	case "rb":
		return b.print(v.Pr).ToBytes()
	case "sb", "psb":
		var sb redact.StringBuilder
		runCompiled(&sbTarget{b: &sb}, b.compile(v.Ops), in, nil)
		if v.K == "psb" {
			return &sb
		}
		return sb

	// ---- containers
	case "islice":
		return b.buildSlice(v)
	case "pislice":
		s := b.buildSlice(v)
		return &s
	case "iarr2":
		return [2]interface{}{b.sub(v, 0), b.sub(v, 1)}
	case "sslice":
		out := make([]string, len(v.Sub))
		for i, s := range v.Sub {
			out[i] = s.str(in)
		}
		return out
	case "intslice":
		out := make([]int, len(v.Sub))
		for i, s := range v.Sub {
			out[i] = int(s.int(in))
		}
		return out
	case "bslice":
		out := make([][]byte, len(v.Sub))
		for i, s := range v.Sub {
			out[i] = s.bytes(in)
		}
		return out
	case "errslice":
		out := make([]error, len(v.Sub))
		for i := range v.Sub {
			if e, ok := b.sub(v, i).(error); ok {
				out[i] = e
			}
		}
		return out
	case "strgslice":
		out := make([]fmt.Stringer, len(v.Sub))
		for i := range v.Sub {
			if e, ok := b.sub(v, i).(fmt.Stringer); ok {
				out[i] = e
			}
		}
		return out
	case "rsslice":
		out := make([]redact.RedactableString, len(v.Sub))
		for i := range v.Sub {
			if e, ok := b.sub(v, i).(redact.RedactableString); ok {
				out[i] = e
			}
		}
		return out
	case "msi":
		m := map[string]interface{}{}
		for i, k := range v.Keys {
			m[k.str(in)] = b.sub(v, i)
		}
		return m
	case "hmsv":
		// a map with keys of a SafeValue type and plain string values, in an
		// unexported field (nothing in it can be boxed)
		m := map[redact.SafeString]string{}
		for i, k := range v.Keys {
			if i < len(v.Sub) {
				m[redact.SafeString(k.str(in))] = v.Sub[i].str(in)
			}
		}
		return HiddenSV{ID: 7, labels: m}
	case "pmsi":
		m := map[string]interface{}{}
		for i, k := range v.Keys {
			m[k.str(in)] = b.sub(v, i)
		}
		return &m
	case "msint":
		m := map[string]int{}
		for i, k := range v.Keys {
			if i < len(v.Sub) {
				m[k.str(in)] = int(v.Sub[i].int(in))
			}
		}
		return m
	case "mis":
		m := map[int]string{}
		for i, k := range v.Keys {
			if i < len(v.Sub) {
				m[int(k.int(in))] = v.Sub[i].str(in)
			}
		}
		return m
	case "mii":
		m := map[interface{}]interface{}{}
		for i, k := range v.Keys {
			kv := b.build(k)
			if kv == nil || !reflect.TypeOf(kv).Comparable() {
				kv = fmt.Sprintf("key%d", i)
			}
			m[kv] = b.sub(v, i)
		}
		return m
	case "structblank":
		return StructBlank{A: int(v.int(in)), B: v.str(in)}
	case "structd":
		d := StructD{Name: v.str(in), nb: NBytes(v.str(in)), ns: [2]NStr{NStr(v.str(in)), "n"}}
		// (whole runes only: a rune cut in the middle is invalid UTF-8, which
		// the library marks with '?' - outside the comparison with fmt)
		copy(d.raw[:], wholeRunes(v.str(in), 4))
		copy(d.Raw[:], wholeRunes(v.str(in), 3))
		return d
	case "byteerr":
		return ByteErr('A' + uint64(v.int(in))%26)
	case "berrslice":
		// a slice of byte-kinded errors; with stand-ins in it, a slice of errors
		typed := make([]ByteErr, 0, len(v.Sub))
		var any []error
		for i := range v.Sub {
			x := b.sub(v, i)
			if be, ok := x.(ByteErr); ok {
				typed = append(typed, be)
			}
			e, _ := x.(error)
			any = append(any, e)
		}
		if len(typed) == len(v.Sub) {
			return typed
		}
		return any
	case "byteerrslice":
		// (letters: under %s %q %x a slice of byte-kinded elements is a byte string)
		c := byte('A' + uint64(v.int(in))%26)
		return []ByteErr{ByteErr(c), ByteErr(c | 1)}
	case "bytestrarr":
		c := byte('A' + uint64(v.int(in))%26)
		return [3]ByteStringer{ByteStringer(c), ByteStringer(c | 1), 'z'}
	case "sliceerr":
		return SliceErr{v.str(in)}
	case "nilsliceerr":
		return SliceErr(nil)
	case "funcstringer":
		x := v.str(in)
		return FuncStringer(func() string { return x })
	case "nilfuncstringer":
		return FuncStringer(nil)
	case "mck":
		// complex keys whose real part is NaN: ordered by their imaginary part
		m := map[complex128]interface{}{}
		for i := range v.Sub {
			m[complex(math.NaN(), float64(i+1))] = b.sub(v, i)
		}
		return m
	case "mnk":
		// array / struct keys whose first component is NaN: ordered by the rest
		m := map[[2]float64]interface{}{}
		for i := range v.Sub {
			m[[2]float64{math.NaN(), float64(len(v.Sub) - i)}] = b.sub(v, i)
		}
		return m
	case "mak":
		// composite keys holding interfaces (Keys: pairs)
		m := map[[2]interface{}]interface{}{}
		for i := 0; i+1 < len(v.Keys); i += 2 {
			m[[2]interface{}{b.build(v.Keys[i]), b.build(v.Keys[i+1])}] = b.sub(v, i/2)
		}
		return m
	case "msk":
		m := map[StructKey]interface{}{}
		for i := 0; i+1 < len(v.Keys); i += 2 {
			m[StructKey{A: b.build(v.Keys[i]), B: int(v.Keys[i+1].int(in))}] = b.sub(v, i/2)
		}
		return m
	case "structsv":
		return StructSV{Node: SVStringer{S: "n7"}, secret: v.str(in), ID: "id", n: int(v.int(in))}
	case "errgostr":
		return ErrGoStr{S: v.str(in)}
	case "getvalue":
		return Setting{Name: v.str(in), V: int(v.int(in))}
	case "nilgetvalue":
		return (*SettingP)(nil)
	case "mup":
		return map[unsafe.Pointer]int{unsafe.Pointer(&mupA): 1, unsafe.Pointer(&mupB): int(v.int(in)), unsafe.Pointer(&mupC): 3}
	case "structm":
		return StructM{m: map[interface{}]int{1: 1, "a": int(v.int(in)), 2.5: 3, true: 4}, M: map[interface{}]string{"k": v.str(in), 2: "two", NStr("n"): "three"}}
	case "safemsg2":
		return SafeMsg2{Msg: "m", secret: v.str(in), Secret: v.str(in)}
	case "ystringer":
		return YieldStringer{S: v.str(in), N: int(v.I)}
	case "tagstruct":
		return TagStruct{A: int(v.int(in)), B: v.str(in)}
	case "tagslice":
		return []TagStruct{{A: int(v.int(in)), B: v.str(in)}}
	case "rtpanic":
		return RtPanicStringer{Idx: int(v.int(in))}
	case "embsafe":
		return EmbSafe{SafeString: redact.SafeString(v.str(in)), N: int(v.int(in))}
	case "embstringer":
		return EmbStringer{StrStringer: StrStringer(v.str(in)), N: int(v.int(in))}
	case "pregstruct":
		return &RegStruct{A: v.str(in), B: int(v.int(in))}
	case "pregslice":
		return &RegSlice{int(v.int(in)), 2}
	case "mfi":
		m := map[float64]interface{}{}
		for i, k := range v.Keys {
			m[k.float(in)] = b.sub(v, i)
		}
		return m
	case "dynstruct":
		// a struct type made at run time: its name derives from I (public)
		t := reflect.StructOf([]reflect.StructField{
			{Name: "F" + strconv.FormatInt(v.I&0xffffff, 10), Type: reflect.TypeOf(0)},
			{Name: "G" + strconv.FormatInt(v.I&0xfff, 10), Type: reflect.TypeOf("")},
			{Name: "X", Type: reflect.TypeOf((*interface{})(nil)).Elem()},
		})
		x := reflect.New(t).Elem()
		x.Field(0).SetInt(3)
		x.Field(1).SetString(v.str(in))
		if len(v.Sub) > 0 {
			if sv := b.sub(v, 0); sv != nil {
				x.Field(2).Set(reflect.ValueOf(sv))
			}
		}
		return x.Interface()
	case "deep":
		// []interface{} nested 101..130 levels deep around Sub[0]
		var x interface{} = b.sub(v, 0)
		for i := int64(0); i < 101+v.I%30; i++ {
			x = []interface{}{x}
		}
		return x
	case "structI":
		return StructI{A: b.sub(v, 0), B: b.sub(v, 1)}
	case "structA":
		return b.structA(v)
	case "pstructA":
		s := b.structA(v)
		return &s
	case "structB":
		return b.structB(v)
	case "pstructB":
		s := b.structB(v)
		return &s
	case "structC":
		s := StructC{M: map[string]interface{}{"k": b.sub(v, 1)}}
		if st, ok := b.sub(v, 0).(fmt.Stringer); ok {
			s.St = st
		}
		if v.int(in) != 0 {
			i := int(v.int(in))
			s.P = &i
		}
		return s
	}
	panic("HARNESS: unknown value kind " + v.K)
}

func (b *builder) buildSlice(v *Val) []interface{} {
	out := make([]interface{}, len(v.Sub))
	for i := range v.Sub {
		out[i] = b.sub(v, i)
	}
	return out
}

func (b *builder) structA(v *Val) StructA {
	s := StructA{X: b.sub(v, 0), Y: v.str(b.inst), N: int(v.int(b.inst))}
	if len(v.Sub) > 1 {
		s.z = b.sub(v, 1)
	}
	return s
}

func (b *builder) structB(v *Val) StructB {
	s := StructB{s: v.str(b.inst)}
	if e, ok := b.sub(v, 0).(error); ok {
		s.E = e
	}
	if len(v.Sub) > 1 {
		s.B = v.Sub[1].bytes(b.inst)
	}
	if len(v.Sub) > 2 {
		if r, ok := b.sub(v, 2).(redact.RedactableString); ok {
			s.R = r
			s.r = r
		}
	}
	return s
}

// print evaluates a nested print spec with the library itself, so that
// redactable operands are always library-produced.
func (b *builder) print(p *PrintS) redact.RedactableString {
	if p == nil {
		return ""
	}
	args := make([]interface{}, len(p.Args))
	for i, a := range p.Args {
		args[i] = b.build(a)
	}
	if p.HasFmt {
		return redact.Sprintf(string(p.Fmt), args...)
	}
	return redact.Sprint(args...)
}

// ---- script execution: Formatter side -----------------------------------

func stateString(st fmt.State, verb rune, withZero bool) string {
	s := "["
	for _, c := range "+-# " {
		if st.Flag(int(c)) {
			s += string(c)
		}
	}
	if withZero && st.Flag('0') {
		s += "0"
	}
	if w, ok := st.Width(); ok {
		s += "w" + strconv.Itoa(w)
	}
	if p, ok := st.Precision(); ok {
		s += "p" + strconv.Itoa(p)
	}
	// the numbers themselves, also when they are reported as absent (a
	// Formatter may ignore the second result)
	w, _ := st.Width()
	pr, _ := st.Precision()
	return s + "%" + string(verb) + " " + strconv.Itoa(w) + "," + strconv.Itoa(pr) + "]"
}

// compiled is an op whose operands have been built once, so that a script
// prints the same objects every time it runs (fmt and redact see the same
// addresses) and builds nothing while printing.
type compiled struct {
	op   *Op
	args []interface{}
	sub  []*compiled
}

func (b *builder) compile(ops []*Op) []*compiled {
	out := make([]*compiled, len(ops))
	for i, op := range ops {
		c := &compiled{op: op}
		for _, a := range op.Args {
			c.args = append(c.args, b.build(a))
		}
		c.sub = b.compile(op.Ops)
		out[i] = c
	}
	return out
}

func compileOps(ops []*Op, inst int) []*compiled { return (&builder{inst: inst}).compile(ops) }

func (b *builder) formatterScript(ops []*Op) func(fmt.State, rune) {
	cs, inst := b.compile(ops), b.inst
	return func(st fmt.State, verb rune) { runFormatterOps(st, verb, cs, inst) }
}

func (b *builder) printerScript(ops []*Op) func(redact.SafePrinter, rune) {
	cs, inst := b.compile(ops), b.inst
	return func(p redact.SafePrinter, verb rune) { runCompiled(&printerTarget{p: p, verb: verb}, cs, inst, nil) }
}

// newSafeFmtV: a SafeFormatter running the given writer script.
func newSafeFmtV(ops []*Op, inst int) SafeFmtV {
	return SafeFmtV{run: (&builder{inst: inst}).printerScript(ops)}
}
func newSafeFmtP(ops []*Op, inst int) *SafeFmtP {
	return &SafeFmtP{run: (&builder{inst: inst}).printerScript(ops)}
}

func runFormatterOps(st fmt.State, verb rune, ops []*compiled, inst int) {
	for _, c := range ops {
		op := c.op
		switch op.K {
		case "Write":
			st.Write([]byte(op.str(inst)))
		case "WriteString":
			io.WriteString(st, op.str(inst))
		case "Fprintf":
			fmt.Fprintf(st, op.str(inst), c.args...)
		case "Fprint":
			fmt.Fprint(st, c.args...)
		case "RFprintf":
			// the package's own F routes onto the fmt.State (a Formatter written
			// against redact instead of fmt)
			redact.Fprintf(st, op.str(inst), c.args...)
		case "RFprint":
			redact.Fprint(st, c.args...)
		case "State":
			io.WriteString(st, stateString(st, verb, false))
		case "Fwd":
			_, f := redact.MakeFormat(st, verb)
			fmt.Fprintf(st, f, c.args...)
		case "SP":
			if sp, ok := st.(redact.SafePrinter); ok {
				runCompiled(&printerTarget{p: sp, verb: verb}, c.sub, inst, nil)
			} else {
				for _, o := range op.Ops {
					io.WriteString(st, o.str(inst))
				}
			}
		case "Panic":
			var payload interface{}
			if len(c.args) > 0 {
				payload = c.args[0]
			}
			panic(payload)
		default:
			panic("HARNESS: unknown formatter op " + op.K)
		}
	}
}

// wholeRunes: the longest prefix of s of at most n bytes that ends at a rune boundary.
func wholeRunes(s string, n int) string {
	if len(s) <= n {
		return s
	}
	for n > 0 && !utf8.RuneStart(s[n]) {
		n--
	}
	return s[:n]
}

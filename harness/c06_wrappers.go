package verifharness

// C06 — Unsafe(x) envelopes all of x; Safe(x) envelopes none; outermost wins.

import (
	"bytes"
	"fmt"
	"reflect"
	"strings"

	"github.com/cockroachdb/redact"
	ri "github.com/cockroachdb/redact/interfaces"
)

// C06Spec: a value, a directive, a wrapper chain (outermost first), a placement.
type C06Spec struct {
	X       *Val       `json:"x"`
	Dir     *Directive `json:"dir"`
	Chain   []string   `json:"chain"` // "safe" / "unsafe", outermost first, length 1..3
	Place   string     `json:"place"` // Top, Slice, Struct, Map
	Reg     []string   `json:"reg,omitempty"`
	Hook    []*Op      `json:"hook,omitempty"`
	HasHook bool       `json:"hasHook,omitempty"`
}

func init() {
	register("C06Wrap", "C06", func() interface{} { return &C06Spec{} }, func(s interface{}) Result { return checkC06(s.(*C06Spec)) })
}

func wrapChain(chain []string, x interface{}) interface{} {
	for i := len(chain) - 1; i >= 0; i-- {
		if chain[i] == "safe" {
			x = redact.Safe(x)
		} else {
			x = redact.Unsafe(x)
		}
	}
	return x
}

// siblings printed before the wrapper in the "AfterSafe" placement: values
// that are safe by their type (nil and non-nil slices / maps included)
var c06Siblings = []interface{}{ri.SafeBytes(nil), SVMap(nil), SVSlice(nil), redact.SafeString("s"), RegSlice(nil), SVMap{"k": 1}, ri.SafeBytes("ab"), SVInt(3)}

func place(p string, v interface{}) interface{} {
	switch p {
	case "AfterSafe0", "AfterSafe1", "AfterSafe2", "AfterSafe3", "AfterSafe4", "AfterSafe5", "AfterSafe6", "AfterSafe7":
		return []interface{}{c06Siblings[int(p[len(p)-1]-'0')], v}
	case "Slice":
		return []interface{}{v}
	case "Struct":
		return StructA{X: v}
	case "Map":
		return map[string]interface{}{"k": v}
	case "UField":
		// an unexported field: reached by reflection only (no Interface())
		return StructA{z: v}
	// a reflect.Value operand stands for the value it holds: the wrapper
	// directly, or an interface-typed slot holding the wrapper
	case "RV":
		return reflect.ValueOf(v)
	case "RVIface":
		x := v
		return reflect.ValueOf(&x).Elem()
	case "RVField":
		return reflect.ValueOf(StructA{X: v}).Field(0)
	case "RVIndex":
		return reflect.ValueOf([]interface{}{v}).Index(0)
	}
	return v
}

// fmtReference: what fmt prints for x at the place.
func fmtReference(p, d string, dir *Directive, x interface{}) printResult {
	switch {
	case p == "Top":
		return callFmt("Sprintf", d, []interface{}{x})
	case strings.HasPrefix(p, "RV"):
		r := callFmt("Sprintf", d, []interface{}{[]interface{}{x}})
		o, c, _ := containerGlue("Slice", dir)
		if !r.panicked && bytes.HasPrefix(r.out, []byte(o)) && bytes.HasSuffix(r.out, []byte(c)) && len(r.out) >= len(o)+len(c) {
			r.out = r.out[len(o) : len(r.out)-len(c)]
		}
		return r
	}
	return callFmt("Sprintf", d, []interface{}{place(p, x)})
}

func topLike(p string) bool { return p == "Top" || strings.HasPrefix(p, "RV") }

// isClassified: x has a classification of its own or re-enters the printer.
func isClassified(v *Val) bool {
	return !isFmtCompatVal(v) || hasKind(v, map[string]bool{"svstr": true, "svint": true, "svfloat": true, "svstringer": true, "svsstringer": true,
		"sverr": true, "svstruct": true, "structsv": true, "embsafe": true, "regstr": true, "regint": true, "regstruct": true, "regstringer": true})
}

func hasKind(v *Val, ks map[string]bool) bool {
	if v == nil {
		return false
	}
	if ks[v.K] {
		return true
	}
	for _, s := range v.Sub {
		if hasKind(s, ks) {
			return true
		}
	}
	for _, op := range v.Ops {
		for _, a := range op.Args {
			if hasKind(a, ks) {
				return true
			}
		}
	}
	return false
}

// containerGlue: what fmt prints around the single element of place p.
func containerGlue(p string, d *Directive) (string, string, bool) {
	sharp := string(d.Verb) == "v" && strings.Contains(d.Flags, "#")
	plus := string(d.Verb) == "v" && strings.Contains(d.Flags, "+")
	switch p {
	case "Top", "RV", "RVIface", "RVField", "RVIndex":
		return "", "", true
	case "Slice":
		if sharp {
			return "[]interface {}{", "}", true
		}
		return "[", "]", true
	}
	_ = plus
	return "", "", false
}

func checkC06(s *C06Spec) Result {
	var res Result
	d := s.Dir.String()
	applyConfig(s.Reg, s.HasHook, s.Hook)
	defer resetConfig()
	var x interface{}
	if p, _ := guard(func() { x = Build(s.X, 0) }); p {
		res.Classes = append(res.Classes, "build-panicked")
		return res
	}
	classified := isClassified(s.X)
	reentrant := hasOpKind(s.X, "SP") || hasKind(s.X, map[string]bool{"safefmt": true, "psafefmt": true, "errsafefmt": true})
	res.NonTrivial = classified || reentrant || s.HasHook
	if reentrant {
		res.Classes = append(res.Classes, "re-entrant-method")
	}
	if classified {
		res.Classes = append(res.Classes, "x-classified")
	}
	res.Classes = append(res.Classes, "place:"+s.Place, "outer:"+s.Chain[0], fmt.Sprintf("chain:%d", len(s.Chain)))
	fail := func(f string, a ...interface{}) Result {
		res.Err = fmt.Errorf("Sprintf(%s, %s(%v(x))): %s", qs(d), s.Place, s.Chain, fmt.Sprintf(f, a...))
		return res
	}
	fmtCompat := isFmtCompatVal(s.X)
	if strings.HasPrefix(s.Place, "RV") {
		// the wrapper's content is printed as a nested value there (pointers
		// show as addresses, nil as <nil> under every verb): the reference is
		// what fmt prints for x as the element of a slice. A reflect.Value
		// inside is not looked through: no comparison with fmt.
		if hasKind(s.X, map[string]bool{"rv": true, "rvzero": true, "rvfield": true, "rvfieldr": true, "rviface": true}) {
			fmtCompat = false
		}
	}
	verb := string(s.Dir.Verb)
	noTPW := verb != "T" && verb != "p" && verb != "w"

	hookLog = hookLog[:0] // (building x may itself have printed errors)
	got := callRedact("Sprintf", d, []interface{}{place(s.Place, wrapChain(s.Chain, x))})
	hookCalls := len(hookLog)
	// N: the outermost wrapper decides
	one := callRedact("Sprintf", d, []interface{}{place(s.Place, wrapChain(s.Chain[:1], x))})
	if got.panicked != one.panicked {
		return fail("panicked=%v but with only the outermost wrapper panicked=%v", got.panicked, one.panicked)
	}
	if got.panicked {
		res.Classes = append(res.Classes, "panic-propagates")
		return res
	}
	if !bytes.Equal(got.out, one.out) {
		return fail("prints %s, but with only the outermost wrapper %s", q(got.out), q(one.out))
	}
	if !LS(got.out) {
		return fail("output %s not line-safe", q(got.out))
	}
	if strings.HasPrefix(s.Place, "RV") && s.Place != "RV" && verb != "p" {
		// a reflect.Value designating an interface-typed slot stands for the
		// value in the slot, like one made from the value directly
		direct := callRedact("Sprintf", d, []interface{}{place("RV", wrapChain(s.Chain, x))})
		if direct.panicked || !bytes.Equal(direct.out, got.out) {
			return fail("prints %s, but %s for reflect.ValueOf of the same wrapper", q(got.out), q(direct.out))
		}
	}
	open, close, glueKnown := containerGlue(s.Place, s.Dir)
	if strings.HasPrefix(s.Place, "AfterSafe") && s.Chain[0] == "unsafe" && noTPW {
		// the sibling printed before the wrapper is safe by its type; what is
		// outside envelopes must be: the container with the sibling alone
		// (minus its closing bracket), the separator, line feeds of x, the
		// closing bracket
		sib := c06Siblings[int(s.Place[len(s.Place)-1]-'0')]
		alone := callRedact("Sprintf", d, []interface{}{[]interface{}{sib}})
		o, c, _ := containerGlue("Slice", s.Dir)
		sep := " "
		if o != "[" {
			sep = ", "
		}
		rest := delEnv(got.out)
		head := bytes.TrimSuffix(delEnv(alone.out), []byte(c))
		if !alone.panicked && (!bytes.HasPrefix(rest, append(append([]byte(nil), head...), sep...)) || !bytes.HasSuffix(rest, []byte(c)) ||
			len(bytes.Trim(rest[len(head)+len(sep):len(rest)-len(c)], "\n")) != 0) {
			return fail("output %s: outside envelopes is %s; want %s + separator + line feeds only + %q (the wrapped value after a safe sibling)", q(got.out), q(rest), q(head), c)
		}
	}
	// S2: Safe(x) adds no envelope wherever it sits, for x without a
	// classification of its own and for x that is declared safe itself: the
	// output has as many envelopes as the same container around Safe(1)
	safeBasic := map[string]bool{"SafeString": true, "SafeInt": true, "SafeUint": true, "SafeFloat": true, "SafeRune": true, "svstr": true, "svint": true, "svfloat": true}
	if s.Chain[0] == "safe" && !s.HasHook && verb != "p" && verb != "T" && ((fmtCompat && !classified && !reentrant) || safeBasic[s.X.K]) {
		base := callRedact("Sprintf", d, []interface{}{place(s.Place, redact.Safe(1))})
		// (after a caught method panic the rest of the directive loses its width
		// and precision, as in fmt: the siblings' empty renderings then have no
		// envelope at all)
		if !base.panicked && !bytes.Contains(got.out, []byte("(PANIC=")) && bytes.Count(got.out, []byte(startS)) != bytes.Count(base.out, []byte(startS)) {
			return fail("prints %s: %d envelopes, but the same container around Safe(1) prints %s", q(got.out), bytes.Count(got.out, []byte(startS)), q(base.out))
		}
	}
	// S3: a SafeFormatter whose method only issues writer primitives (no
	// operands of its own that could carry a classification, no panic): under
	// Safe() even its Unsafe* and io.Writer-side payloads are not enveloped
	if s.Chain[0] == "safe" && !s.HasHook && verb != "p" && verb != "T" && glueKnown && flatSafeFormatter(s.X) {
		res.Classes = append(res.Classes, "safe(flat SafeFormatter)")
		if hasMarker(got.out) {
			return fail("output %s contains an envelope although x only writes primitives to its SafePrinter", q(got.out))
		}
	}
	switch s.Chain[0] {
	case "unsafe":
		// U1: everything of x is inside envelopes
		if glueKnown && noTPW {
			rest := delEnv(got.out)
			if !bytes.HasPrefix(rest, []byte(open)) || !bytes.HasSuffix(rest, []byte(close)) {
				return fail("output %s: container brackets %q...%q not found outside the envelopes", q(got.out), open, close)
			}
			inner := rest[len(open) : len(rest)-len(close)]
			if len(bytes.Trim(inner, "\n")) != 0 {
				return fail("output %s: %s of the wrapped value's rendering is outside envelopes", q(got.out), q(inner))
			}
		}
		if s.Place == "Top" && verb == "T" {
			// %T prints the type: public by design
		}
		// U2: the characters are those fmt prints for x
		if fmtCompat && topLike(s.Place) && noTPW && !s.HasHook {
			want := fmtReference(s.Place, d, s.Dir, x)
			if !want.panicked {
				if g, w := strip(got.out), esc(want.out); !bytes.Equal(g, w) {
					return fail("prints %s (stripped %s); fmt prints %s for x", q(got.out), q(g), q(w))
				}
			}
		}
		// H: the hook is bypassed (a Format method that makes a print call of
		// its own with the package-level Fprint/Fprintf starts an independent
		// call, which knows nothing of the wrapper: its output lands in the
		// envelope as bytes written to the fmt.State)
		if s.HasHook && !hasOpKind(s.X, "RFprintf") && !hasOpKind(s.X, "RFprint") {
			if hookCalls != 0 {
				return fail("the error hook was called under Unsafe()")
			}
			redact.RegisterRedactErrorFn(nil)
			noHook := callRedact("Sprintf", d, []interface{}{place(s.Place, wrapChain(s.Chain, x))})
			if !noHook.panicked && !bytes.Equal(noHook.out, got.out) {
				return fail("prints %s with an error hook installed and %s without", q(got.out), q(noHook.out))
			}
		}
	case "safe":
		// S1: no envelope, the characters fmt prints
		if fmtCompat && !classified && !reentrant && !s.HasHook {
			if glueKnown && hasMarker(got.out) {
				return fail("output %s contains an envelope", q(got.out))
			}
			if noTPW && glueKnown {
				want := fmtReference(s.Place, d, s.Dir, x)
				if !want.panicked {
					if w := esc(want.out); !bytes.Equal(got.out, w) {
						return fail("prints %s; fmt prints %s for x", q(got.out), q(w))
					}
				}
			}
		}
	}
	return res
}

var flatOpKinds = map[string]bool{"SafeString": true, "SafeInt": true, "SafeUint": true, "SafeFloat": true, "SafeRune": true, "SafeByte": true, "SafeBytes": true,
	"UnsafeString": true, "UnsafeRune": true, "UnsafeByte": true, "UnsafeBytes": true, "Write": true, "WriteString": true, "WriteByte": true, "WriteRune": true}

// flatSafeFormatter: x is a SafeFormatter whose script consists of writer
// primitives only.
func flatSafeFormatter(v *Val) bool {
	if v == nil || (v.K != "safefmt" && v.K != "psafefmt" && v.K != "errsafefmt") || len(v.Ops) == 0 {
		return false
	}
	for _, op := range v.Ops {
		if !flatOpKinds[op.K] {
			return false
		}
	}
	return true
}

func hasOpKind(v *Val, k string) bool {
	if v == nil {
		return false
	}
	var inOps func(ops []*Op) bool
	inOps = func(ops []*Op) bool {
		for _, op := range ops {
			if op.K == k || inOps(op.Ops) {
				return true
			}
			for _, a := range op.Args {
				if hasOpKind(a, k) {
					return true
				}
			}
		}
		return false
	}
	if inOps(v.Ops) {
		return true
	}
	for _, s := range v.Sub {
		if hasOpKind(s, k) {
			return true
		}
	}
	return false
}

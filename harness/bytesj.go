package verifharness

import (
	"encoding/json"
	"strconv"
)

// B is a byte string that marshals to JSON loss-free and readably:
// the Go-quoted ASCII form without the outer quotes ("a\xe2\n‹").
type B []byte

func (b B) MarshalJSON() ([]byte, error) {
	q := strconv.QuoteToASCII(string(b))
	return json.Marshal(q[1 : len(q)-1])
}

func (b *B) UnmarshalJSON(data []byte) error {
	var s string
	if err := json.Unmarshal(data, &s); err != nil {
		return err
	}
	u, err := strconv.Unquote(`"` + s + `"`)
	if err != nil {
		return err
	}
	*b = B(u)
	return nil
}

func (b B) String() string { return string(b) }

func q(b []byte) string  { return strconv.QuoteToASCII(string(b)) }
func qs(s string) string { return strconv.QuoteToASCII(s) }

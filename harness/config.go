package verifharness

// config.go: process-global configuration of redact (safe-type registry,
// error hook), applied per case through the verif hooks.

import (
	"reflect"

	"github.com/cockroachdb/redact"
)

var regTypes = map[string]reflect.Type{
	"regstr":      reflect.TypeOf(RegStr("")),
	"regint":      reflect.TypeOf(RegInt(0)),
	"regstruct":   reflect.TypeOf(RegStruct{}),
	"regstringer": reflect.TypeOf(RegStringer("")),
	"regslice":    reflect.TypeOf(RegSlice(nil)),
	// builtin types can be registered as well (named like their leaf kinds)
	"str": reflect.TypeOf(""),
	"int": reflect.TypeOf(0),
}

var regKindsAll = []string{"regstr", "regint", "regstruct", "regstringer", "regslice"}

// hookLog records the calls of the installed error hook.
type hookCall struct {
	Err  error
	Verb rune
}

var hookLog []hookCall

// applyConfig installs the configuration of a case.
func applyConfig(reg []string, hasHook bool, hook []*Op) {
	redact.VerifResetSafeTypes()
	for _, k := range reg {
		if t, ok := regTypes[k]; ok {
			redact.RegisterSafeType(t)
		}
	}
	hookLog = hookLog[:0]
	if !hasHook {
		redact.RegisterRedactErrorFn(nil)
		return
	}
	cs := compileOps(hook, 0)
	currentHook = cs
	redact.RegisterRedactErrorFn(func(err error, p redact.SafePrinter, verb rune) {
		hookLog = append(hookLog, hookCall{Err: err, Verb: verb})
		runHookScript(err, p, verb, cs)
	})
}

func resetConfig() { applyConfig(nil, false, nil) }

// runHookScript is the scripted error hook: writer ops plus two
// hook-specific ones: "Verb" (emits the verb as safe text) and "ErrText"
// (emits err.Error() as unsafe text; nil-receiver safe).
func runHookScript(err error, p redact.SafePrinter, verb rune, ops []*compiled) {
	t := &printerTarget{p: p, verb: verb}
	for i, c := range ops {
		switch c.op.K {
		case "Verb":
			p.SafeRune(redact.SafeRune(verb))
		case "ErrText":
			p.UnsafeString(safeErrorText(err))
		case "Cause":
			// print the cause through the printer, like error libraries do:
			// the hook is re-entered for it
			if u, ok := err.(interface{ Unwrap() error }); ok {
				if cause := safeUnwrap(u); cause != nil {
					p.Print(cause)
				}
			}
		default:
			runCompiledOp(t, i, c, 0, nil)
		}
	}
}

func safeErrorText(err error) (s string) {
	defer func() {
		if r := recover(); r != nil {
			s = "<nil-receiver>"
		}
	}()
	return err.Error()
}

func safeUnwrap(u interface{ Unwrap() error }) (e error) {
	defer func() {
		if recover() != nil {
			e = nil
		}
	}()
	return u.Unwrap()
}

package verifharness

import (
	"fmt"
	"os"
	"os/exec"
	"strings"
	"sync"
	"testing"

	"github.com/cockroachdb/redact"
	"pgregory.net/rapid"
)

var c12Routes = []string{"Sprint", "Sprintf", "Sprintf", "Fprint", "Fprintf", "HelperForErrorf", "HelperForErrorf", "SBPrint", "SBPrintf", "SprintfnPrint", "SprintfnPrintf"}

// genAbnormalCase: a call weighted towards what can leave a pooled printer dirty.
func genAbnormalCase(rt *rapid.T, noHook bool) *FmtCase {
	fc := &fmtConfig{}
	vc := &valConfig{maxDepth: 2}
	k := rapid.IntRange(0, 13).Draw(rt, "abn")
	if k == 0 && rapid.IntRange(0, 2).Draw(rt, "bigskip") > 0 {
		k = 11 // (large outputs are slow: one case in 36)
	}
	switch k {
	case 0:
		// output just below / above the pooling limit of 64 KiB
		w := []string{"60000", "65000", "65536", "70000"}[rapid.IntRange(0, 3).Draw(rt, "big")]
		return &FmtCase{Route: "Sprintf", Segs: []Seg{{Dir: &Directive{Width: w, Verb: B("d")}}}, Args: []*Val{{K: "int", I: 1}}}
	case 1:
		// %w use and misuse in HelperForErrorf
		c := genC15(rt)
		if noHook {
			c.HasHook, c.Hook = false, nil
		}
		return c
	case 2:
		// wrappers around programs
		x := vc.genVal(rt, 0, false)
		w := []string{"safe", "unsafe"}[rapid.IntRange(0, 1).Draw(rt, "w")]
		return &FmtCase{Route: "Sprintf", Segs: []Seg{{Dir: fc.genDirective(rt)}}, Args: []*Val{{K: w, Sub: []*Val{x}}}}
	case 3:
		// a SafeFormat method that panics mid-output
		ops := genHistory(rt, &opConfig{ioSide: true, prints: true, maxTok: 3}, 4)
		ops = append(ops, &Op{K: "Panic", Args: []*Val{vc.genPanicPayload(rt, 0, false)}})
		return &FmtCase{Route: c12Routes[rapid.IntRange(0, len(c12Routes)-1).Draw(rt, "route")], Segs: []Seg{{Dir: &Directive{Verb: B("v")}}},
			Args: []*Val{{K: "safefmt", Ops: ops}}}
	case 12:
		// a struct type this process has not printed before, with field names
		// (type-keyed caches are process-wide state)
		leaf := &Val{K: "ystringer", S: B("y"), I: int64(rapid.IntRange(0, 3).Draw(rt, "yn"))}
		x := &Val{K: "dynstruct", S: B("g"), I: int64(rapid.IntRange(0, 1<<30).Draw(rt, "dynid")), Sub: []*Val{leaf}}
		if rapid.Bool().Draw(rt, "inslice") {
			x = &Val{K: "slice", Sub: []*Val{x, x}}
		}
		verb := []string{"+v", "#v", "v"}[rapid.IntRange(0, 2).Draw(rt, "dv")]
		d := &Directive{Verb: B(verb[len(verb)-1:]), Flags: verb[:len(verb)-1]}
		return &FmtCase{Route: c12Routes[rapid.IntRange(0, len(c12Routes)-1).Draw(rt, "route")], Segs: []Seg{{Dir: d}}, Args: []*Val{x}}
	case 13:
		// a very deeply nested operand whose innermost method yields
		leaf := &Val{K: "ystringer", S: B("leaf"), I: int64(rapid.IntRange(0, 3).Draw(rt, "yn"))}
		x := &Val{K: "deep", I: int64(rapid.IntRange(0, 29).Draw(rt, "deepn")), Sub: []*Val{leaf}}
		return &FmtCase{Route: c12Routes[rapid.IntRange(0, len(c12Routes)-1).Draw(rt, "route")], Segs: []Seg{{Lit: B("d=")}, {Dir: &Directive{Verb: B("v")}}}, Args: []*Val{x}}
	case 4, 5:
		// a wrapper around a re-entrant program whose nested printer meets a
		// contained or a propagating (nested) panic, or just prints
		payload := vc.leafS(rt, "str", false, false)
		if rapid.Bool().Draw(rt, "nestedpanic") {
			payload = &Val{K: "stringer!", S: B("x"), Sub: []*Val{vc.leafS(rt, "str", false, false)}}
		}
		operand := &Val{K: "stringer!", S: B("x"), Sub: []*Val{payload}}
		if rapid.IntRange(0, 2).Draw(rt, "nopanic") == 0 {
			operand = vc.genVal(rt, 1, false)
		}
		nestedOp := &Op{K: "Print", Args: []*Val{vc.leafS(rt, "str", false, false), operand}}
		if rapid.Bool().Draw(rt, "printf") {
			// (explicit argument indexes set per-call parser state in the nested
			// printer, which a panic that leaves it must not leave behind)
			nf := pick(rt, "nestedfmt", []string{"n=%v %v", "n=%v %v", "n=%[1]v %[2]v", "n=%[2]v|%[1]v", "n=%[1]v %v", "n=%[2]*[1]v"})
			nestedOp = &Op{K: "Printf", S: B(nf), Args: nestedOp.Args}
		}
		ops := []*Op{{K: "SafeString", S: B("pre")}, nestedOp, {K: "UnsafeString", S: B("post")}}
		prog := &Val{K: "safefmt", Ops: ops}
		if rapid.Bool().Draw(rt, "viaFormatter") {
			prog = &Val{K: "fmter", Ops: []*Op{{K: "Write", S: B("w")}, {K: "SP", Ops: ops}}}
		}
		x := prog
		switch rapid.IntRange(0, 2).Draw(rt, "wrapk") {
		case 0:
			x = &Val{K: "safe", Sub: []*Val{prog}}
		case 1:
			x = &Val{K: "unsafe", Sub: []*Val{prog}}
		}
		return &FmtCase{Route: c12Routes[rapid.IntRange(0, len(c12Routes)-1).Draw(rt, "route")], Segs: []Seg{{Lit: B("<")}, {Dir: &Directive{Verb: B("v")}}, {Lit: B(">")}},
			Args: []*Val{x}}
	}
	c := genFmtCase(rt, fc, vc, c12Routes, 30)
	if !noHook && rapid.IntRange(0, 5).Draw(rt, "hook") == 0 {
		c.HasHook = true
		c.Hook = genHookScript(rt, vc)
	}
	return c
}

func genC12Hist(rt *rapid.T) *C12Spec {
	s := &C12Spec{}
	n := rapid.IntRange(1, 12).Draw(rt, "nhist")
	for i := 0; i < n; i++ {
		hc := genAbnormalCase(rt, false)
		if rapid.IntRange(0, 3).Draw(rt, "histreg") == 0 {
			// the history call runs under another registry of safe types than
			// the probes (which run under the empty one, like their references):
			// nothing remembered about a type may survive the call
			for _, k := range append(append([]string{}, regKindsAll...), "str", "int") {
				if rapid.IntRange(0, 2).Draw(rt, "hreg") == 0 {
					hc.Reg = append(hc.Reg, k)
				}
			}
		}
		s.History = append(s.History, hc)
		s.Probes = append(s.Probes, rapid.IntRange(-1, len(probeBattery)-1).Draw(rt, "probe"))
	}
	return s
}

func TestC12Hist(t *testing.T) {
	rapidCheck(t, "C12Hist", func(rt *rapid.T) interface{} { return genC12Hist(rt) })
}

func genC12Conc(rt *rapid.T) *C12Conc {
	s := &C12Conc{Shared: rapid.IntRange(0, 3).Draw(rt, "shared") == 0}
	n := rapid.IntRange(2, 16).Draw(rt, "goroutines")
	var fresh *FmtCase
	if rapid.IntRange(0, 2).Draw(rt, "fresh") == 0 {
		x := &Val{K: "dynstruct", S: B("g"), I: int64(rapid.IntRange(0, 1<<30).Draw(rt, "dynid")), Sub: []*Val{{K: "str", S: B("x")}}}
		verb := []string{"+v", "#v"}[rapid.IntRange(0, 1).Draw(rt, "dv")]
		fresh = &FmtCase{Route: "Sprintf", Segs: []Seg{{Dir: &Directive{Verb: B("v"), Flags: verb[:1]}}}, Args: []*Val{x}}
	}
	for g := 0; g < n; g++ {
		m := rapid.IntRange(1, 6).Draw(rt, "ncalls")
		var list []*FmtCase
		var y []int
		for i := 0; i < m; i++ {
			// (no hook: it is process-global configuration, not part of the call)
			list = append(list, genAbnormalCase(rt, true))
			y = append(y, rapid.IntRange(0, 3).Draw(rt, "yield"))
		}
		if fresh != nil && (g < 2 || rapid.Bool().Draw(rt, "freshhere")) {
			// the first use of a type, on several goroutines at once
			at := 0
			if g >= 2 {
				at = rapid.IntRange(0, len(list)).Draw(rt, "freshat")
			}
			list = append(append(append([]*FmtCase(nil), list[:at]...), fresh), list[at:]...)
			y = append(y, 0)
		}
		s.Lists = append(s.Lists, list)
		s.Yields = append(s.Yields, y)
		if s.Shared && g == 0 {
			// the other goroutines replay list 0 on the same operand objects
		}
	}
	return s
}

func TestC12Conc(t *testing.T) {
	rapidCheck(t, "C12Conc", func(rt *rapid.T) interface{} { return genC12Conc(rt) })
}

// TestC12SharedBuilder: the fixed scenario of finding F6, for the race
// detector: several goroutines print one StringBuilder whose last envelope
// is still open (its accessors append the closing marker to a copy).
func TestC12SharedBuilder(t *testing.T) {
	var sb redact.StringBuilder
	sb.Grow(100)
	sb.SafeString("safe ")
	sb.UnsafeString("open envelope")
	want := string(sb.RedactableString())
	var wg sync.WaitGroup
	errs := make(chan string, 64)
	for g := 0; g < 8; g++ {
		wg.Add(1)
		go func() {
			defer wg.Done()
			for i := 0; i < 200; i++ {
				if got := string(redact.Sprint(&sb)); got != want {
					errs <- got
					return
				}
				if got := string(redact.Sprintf("%v", sb)); got != want {
					errs <- got
					return
				}
				_ = sb.Len()
				_ = sb.String()
			}
		}()
	}
	wg.Wait()
	close(errs)
	for e := range errs {
		spec := map[string]string{"scenario": "8 goroutines x 200 x Sprint(&sb), Sprintf(%v, sb), sb.Len(), sb.String() on one StringBuilder with an open envelope", "got": e, "want": want}
		recordFailure(&checkDef{name: "C12SharedBuilder", prop: "C12"}, spec, fmt.Errorf("concurrent printing of one StringBuilder gives %q, want %q", e, want))
		t.Fatalf("concurrent printing of one StringBuilder gives %q, want %q", e, want)
	}
	col.CaseFP("C12SharedBuilder", 1, true, func() interface{} {
		return "8 goroutines x 200 iterations on one shared StringBuilder with an open envelope"
	})
	col.CaseFP("C12SharedBuilder", 2, true, nil)
}

// TestC12DumpProbes prints the probe battery's results (used by
// TestC12FreshProcess in a freshly started process).
func TestC12DumpProbes(t *testing.T) {
	if os.Getenv("VERIF_DUMP_PROBES") == "" {
		t.Skip("only run as a subprocess")
	}
	for i, p := range probeBattery {
		r := p.run()
		fmt.Printf("PROBE %d %x %v %q\n", i, r.out, r.panicked, fmt.Sprint(r.err))
	}
}

// TestC12FreshProcess: the probe results in this (warm) process, after a
// history of abnormal calls, equal those of a freshly started process.
func TestC12FreshProcess(t *testing.T) {
	cmd := exec.Command(os.Args[0], "-test.run", "^TestC12DumpProbes$", "-test.v")
	cmd.Env = append(os.Environ(), "VERIF_DUMP_PROBES=1", "VERIF_OUT=", "VERIF_FAILFILE=")
	outb, err := cmd.Output()
	if err != nil {
		t.Fatalf("HARNESS-ERROR: subprocess: %v", err)
	}
	fresh := map[int]string{}
	for _, line := range strings.Split(string(outb), "\n") {
		var i int
		var rest string
		if n, _ := fmt.Sscanf(line, "PROBE %d", &i); n == 1 {
			rest = line[strings.Index(line, " ")+1:]
			rest = rest[strings.Index(rest, " ")+1:]
			fresh[i] = rest
		}
	}
	if len(fresh) != len(probeBattery) {
		t.Fatalf("HARNESS-ERROR: %d probe lines from the subprocess, want %d:\n%s", len(fresh), len(probeBattery), outb)
	}
	// warm this process up with abnormal calls (fixed seeds: part of the scenario)
	n := 0
	rapid.Check(t, func(rt *rapid.T) {
		c := genAbnormalCase(rt, false)
		runCase(c, 0)
		n++
		for i, p := range probeBattery {
			r := p.run()
			got := fmt.Sprintf("%x %v %q", r.out, r.panicked, fmt.Sprint(r.err))
			if got != fresh[i] {
				spec := &C12Spec{History: []*FmtCase{c}, Probes: []int{i}}
				recordFailure(checks["C12Hist"], spec, fmt.Errorf("probe %q gives %s in a warm process, %s in a freshly started process", p.name, got, fresh[i]))
				rt.Fatalf("probe %q gives %s in a warm process, %s in a freshly started process", p.name, got, fresh[i])
			}
		}
		col.CaseFP("C12FreshProcess", uint64(n), true, nil)
	})
}

// TestEnumFirstUse: every entry point as the first library call of a process.
// VERIF_FIRSTUSE_PROP selects the entry points of one property (C07 / C12);
// with VERIF_FIRSTUSE_CONC the first call is made by 8 goroutines at once.
func TestEnumFirstUse(t *testing.T) {
	prop := os.Getenv("VERIF_FIRSTUSE_PROP")
	if prop == "" {
		prop = "C12"
	}
	var specs []*FirstUseSpec
	for _, c := range firstUseCalls {
		if prop == "C07" && c.prop != "C07" {
			continue
		}
		specs = append(specs, &FirstUseSpec{Entry: c.name, Conc: os.Getenv("VERIF_FIRSTUSE_CONC") != ""})
	}
	results := make([]Result, len(specs))
	var wg sync.WaitGroup
	sem := make(chan struct{}, 8)
	for i := range specs {
		wg.Add(1)
		go func(i int) {
			defer wg.Done()
			sem <- struct{}{}
			defer func() { <-sem }()
			results[i] = checks["FirstUse"+prop].runSafely(specs[i])
		}(i)
	}
	wg.Wait()
	for i, spec := range specs {
		spec, res := spec, results[i]
		col.CaseFP("FirstUse"+prop, fingerprint([]byte(fmt.Sprint(spec.Entry, spec.Conc))), true, func() interface{} { return spec }, res.Classes...)
		if res.Err != nil {
			enumFail(t, "FirstUse"+prop, spec, res.Err)
		}
	}
	col.Exhaustive("FirstUse"+prop, fmt.Sprintf("%d public entry points, each as the first library call of a freshly started process (made by one goroutine, or by 8 at once under the race detector), followed by all the others; compared with a warm process", len(specs)))
}

package verifharness

import (
	"bytes"
	"fmt"
	"math"
	"testing"

	"pgregory.net/rapid"
)

var edgeContexts = []string{"SB", "MB", "Sprintfn", "SafeFormat"}

func genEdge(rt *rapid.T) *EdgeSpec {
	oc := &opConfig{ioSide: true, prints: true, maxTok: 3}
	ocb := &opConfig{ioSide: true, prints: true, maxTok: 3, bytesAlpha: true}
	s := &EdgeSpec{Ctx: edgeContexts[rapid.IntRange(0, 3).Draw(rt, "ctx")]}
	pre := oc
	if rapid.IntRange(0, 3).Draw(rt, "prebytes") == 0 {
		pre = ocb
	}
	s.Prefix = genHistory(rt, pre, 6)
	s.Suffix = genHistory(rt, oc, 4)
	kinds := []string{"SafeRune", "UnsafeRune", "WriteRune", "SafeByte", "UnsafeByte", "WriteByte", "SafeString", "UnsafeString", "SafeBytes", "UnsafeBytes", "Write", "WriteString"}
	if s.Ctx == "SB" || s.Ctx == "MB" {
		kinds = append(kinds, "MBWriteRune", "MBWriteByte")
	}
	kinds = append(kinds, "PrintCast", "PrintCast")
	k := kinds[rapid.IntRange(0, len(kinds)-1).Draw(rt, "ek")]
	e := &Op{K: k}
	switch k {
	case "PrintCast":
		// marker-free bytes (every byte of a marker that is complete is
		// replaced), often very short and made of continuation bytes only
		var b []byte
		if rapid.Bool().Draw(rt, "castshort") {
			b = rapid.SliceOfN(rapid.SampledFrom([]byte{0x80, 0xB9, 0xBA, 0xE2, 0xBF, 0xC3, 'a', '\n'}), 0, 4).Draw(rt, "castb")
		} else {
			b = genBytes(rt, "cast", 6)
		}
		b = bytes.ReplaceAll(bytes.ReplaceAll(append([]byte(nil), b...), []byte(startS), []byte("m")), []byte(endS), []byte("m"))
		e.S = b
		e.I = int64(rapid.IntRange(0, 1).Draw(rt, "castkind"))
		if rapid.IntRange(0, 2).Draw(rt, "castfirst") == 0 {
			s.Prefix = nil // the very first thing written
		}
	case "SafeRune", "UnsafeRune", "WriteRune", "MBWriteRune":
		switch rapid.IntRange(0, 4).Draw(rt, "rk") {
		case 0:
			e.I = int64(rapid.IntRange(0xD800, 0xDFFF).Draw(rt, "surrogate"))
		case 1:
			e.I = int64(rapid.Int32().Draw(rt, "anyrune"))
		case 2:
			e.I = int64(invalidRunes[rapid.IntRange(0, len(invalidRunes)-1).Draw(rt, "inv")])
		default:
			e.I = int64(genRune(rt, "r", true))
		}
	case "SafeByte", "UnsafeByte", "WriteByte", "MBWriteByte":
		e.I = int64(rapid.IntRange(0, 255).Draw(rt, "anybyte"))
	default:
		e.S = genBytes(rt, "es", 6)
		if rapid.IntRange(0, 4).Draw(rt, "raw") == 0 {
			e.S = rapid.SliceOfN(rapid.Byte(), 0, 12).Draw(rt, "rawbytes")
		}
	}
	s.Edge = e
	s.EdgeMode = rapid.IntRange(0, 1).Draw(rt, "edgeMode")
	return s
}

func TestC11Edge(t *testing.T) {
	rapidCheck(t, "C11Edge", func(rt *rapid.T) interface{} { return genEdge(rt) })
}

// TestEnumC11Runes: every surrogate and the out-of-range runes, through
// every rune-taking method, in every buffer state class and context.
func TestEnumC11Runes(t *testing.T) {
	var runes []int64
	for r := int64(0xD800); r <= 0xDFFF; r++ {
		runes = append(runes, r)
	}
	runes = append(runes, -1, math.MinInt32, math.MaxInt32, 0x110000, 0x10FFFF, 0xFFFD, 0, 0x7f, 0x80, '‹', '›', '\n')
	step := envInt("VERIF_RUNE_STEP", 1)
	prefixes := map[string][]*Op{
		"empty":           nil,
		"open-envelope":   {{K: "UnsafeString", S: B("ab")}},
		"after-safe":      {{K: "SafeString", S: B("ab")}},
		"after-raw":       {{K: "Print", Args: []*Val{{K: "str", S: B("p")}}}},
		"pending-partial": {{K: "UnsafeBytes", S: B("\xe2\x80")}},
	}
	suffix := []*Op{{K: "SafeString", S: B("z")}}
	n := 0
	for pname, pre := range prefixes {
		for _, ctx := range edgeContexts {
			kinds := []string{"SafeRune", "UnsafeRune", "WriteRune"}
			if ctx == "SB" || ctx == "MB" {
				kinds = append(kinds, "MBWriteRune")
			}
			for _, k := range kinds {
				for i := 0; i < len(runes); i += 1 {
					if runes[i] >= 0xD800 && runes[i] <= 0xDFFF && (runes[i]-0xD800)%int64(step) != 0 {
						continue
					}
					spec := &EdgeSpec{Prefix: pre, Edge: &Op{K: k, I: runes[i]}, Suffix: suffix, Ctx: ctx, EdgeMode: i % 2}
					res := checks["C11Edge"].runSafely(spec)
					n++
					col.CaseFP("C11Edge(enum)", fingerprint([]byte(fmt.Sprint(pname, ctx, k, runes[i]))), true, func() interface{} { return spec }, "state:"+pname)
					if res.Err != nil {
						enumFail(t, "C11Edge", spec, res.Err)
					}
				}
			}
		}
	}
	col.Exhaustive("C11Edge(enum)", fmt.Sprintf("all 2048 surrogates (step %d) and the out-of-range / boundary runes x every rune-taking method x 5 buffer state classes x 4 contexts: %d cases", step, n))
}

var nonSliceKinds = []string{"int", "nil", "str", "barr", "iarr2", "msi", "mis", "pint", "pislice", "chan", "func", "structA", "pstructA", "bool", "f64", "nilptr", "nilmap", "nilfunc", "stringer", "err", "rvzero", "uptr", "SafeString", "safe", "unsafe"}

func genJoinEdge(rt *rapid.T) *JoinEdge {
	vc := &valConfig{maxDepth: 1, noPanic: true}
	j := &JoinEdge{Ctx: []string{"SB", "Sprintfn"}[rapid.IntRange(0, 1).Draw(rt, "ctx")], Delim: genText(rt, "delim", 2)}
	if rapid.IntRange(0, 3).Draw(rt, "slice") == 0 {
		j.Operand = vc.genContainer(rt, 0, false)
		return j
	}
	k := nonSliceKinds[rapid.IntRange(0, len(nonSliceKinds)-1).Draw(rt, "k")]
	switch k {
	case "iarr2", "msi", "mis", "pislice", "structA", "pstructA":
		for i := 0; i < 50; i++ {
			v := vc.genContainer(rt, 0, false)
			if v.K == k {
				j.Operand = v
				return j
			}
		}
		j.Operand = &Val{K: "iarr2", Sub: []*Val{{K: "int", I: 1}, {K: "str", S: B("x")}}}
	case "safe", "unsafe":
		j.Operand = &Val{K: k, Sub: []*Val{vc.genVal(rt, 1, false)}}
	case "str", "stringer", "err", "SafeString":
		j.Operand = vc.leafS(rt, k, false, false)
	case "barr":
		j.Operand = vc.leafS(rt, k, false, true)
	case "int", "pint", "bool":
		j.Operand = vc.leafI(rt, k, false)
	case "f64":
		j.Operand = vc.leafF(rt, k, false)
	default:
		j.Operand = &Val{K: k}
	}
	return j
}

func TestC11Join(t *testing.T) {
	rapidCheck(t, "C11Join", func(rt *rapid.T) interface{} { return genJoinEdge(rt) })
}

func TestC11Fmt(t *testing.T) {
	rapidCheck(t, "C11Fmt", func(rt *rapid.T) interface{} {
		c := genWFCase(rt, false)
		return c
	})
}

var panicKindsAll = []string{"stringer!", "pstringer!", "err!", "perr!", "gostr!", "safemsg!", "fmter", "safefmt", "psafefmt", "hook"}

func genPanicSpec(rt *rapid.T) *PanicSpec {
	vc := &valConfig{maxDepth: 1, noPanic: true, noPointers: true}
	s := &PanicSpec{A: genText(rt, "a", 2), BLit: genText(rt, "b", 2)}
	if rapid.Bool().Draw(rt, "hasA") {
		s.AArg = vc.genVal(rt, 1, false)
	}
	if rapid.Bool().Draw(rt, "hasB") {
		s.BArg = vc.genVal(rt, 1, false)
	}
	s.Kind = panicKindsAll[rapid.IntRange(0, len(panicKindsAll)-1).Draw(rt, "kind")]
	if s.Kind == "hook" {
		// the (panicking) hook renders every error operand of the call: keep
		// the surrounding operands free of errors
		if s.AArg != nil {
			s.AArg = vc.leafS(rt, "str", false, false)
		}
		if s.BArg != nil {
			s.BArg = vc.leafI(rt, "int", false)
		}
	}
	fc := &fmtConfig{noStar: true, noW: true, noTp: true, noHugeNumbers: true}
	s.Dir = fc.genDirective(rt)
	switch s.Kind {
	case "stringer!", "pstringer!", "err!", "perr!":
		// dispatched for v s x X q, and not for %#v
		s.Dir.Verb = B(string("vsxXq"[rapid.IntRange(0, 4).Draw(rt, "sv")]))
		if string(s.Dir.Verb) == "v" {
			s.Dir.Flags = stringsReplaceAll(s.Dir.Flags, "#", "")
		}
	case "safemsg!":
		// SafeMessage is called for the verbs that apply to strings (for the
		// others the bad verb is reported without calling it, as fmt does with
		// String and Error)
		s.Dir.Verb = B(string("vsxXq"[rapid.IntRange(0, 4).Draw(rt, "smv")]))
	case "gostr!":
		s.Dir.Verb = B("v")
		if !bytesContains([]byte(s.Dir.Flags), '#') {
			s.Dir.Flags += "#"
		}
	}
	switch s.Kind {
	case "fmter":
		n := rapid.IntRange(0, 3).Draw(rt, "npart")
		for i := 0; i < n; i++ {
			s.Partial = append(s.Partial, &Op{K: []string{"Write", "WriteString"}[rapid.IntRange(0, 1).Draw(rt, "pk")], S: genText(rt, "pp", 3)})
		}
	case "safefmt", "psafefmt", "hook":
		oc := &opConfig{ioSide: true, prints: true, maxTok: 3}
		s.Partial = genHistory(rt, oc, 4)
	}
	switch rapid.IntRange(0, 4).Draw(rt, "payload") {
	case 0:
		s.Payload = vc.leafS(rt, "serr", false, false)
	case 1:
		s.Payload = vc.leafS(rt, "SafeString", true, false)
	case 2:
		s.Payload = vc.leafI(rt, "int", false)
	case 3:
		s.Payload = &Val{K: "stringer!", S: B("x"), Sub: []*Val{vc.leafS(rt, "str", false, false)}} // nested panic
	default:
		s.Payload = vc.leafS(rt, "str", false, false)
	}
	bystanderOK := s.Kind == "stringer!" || s.Kind == "pstringer!" || s.Kind == "gostr!" || s.Kind == "fmter" // (an error would be rendered by the hook itself)
	if bystanderOK && s.AArg == nil && s.BArg == nil && rapid.IntRange(0, 3).Draw(rt, "bystander") == 2 {
		// an error hook that does not panic itself but prints a value whose
		// String method panics (contained inside the hook's nested printer)
		s.HasHookOps = true
		s.HookOps = []*Op{{K: "ErrText"}, {K: "Print", Args: []*Val{{K: "stringer!", S: B("x"), Sub: []*Val{vc.leafS(rt, "str", false, false)}}}}, {K: "SafeString", S: B("|")}}
		if rapid.Bool().Draw(rt, "bystanderPrintf") {
			s.HookOps[1] = &Op{K: "Printf", S: B("<%v>"), Args: s.HookOps[1].Args}
		}
	}
	s.Under = []string{"", "", "Unsafe", "Slice"}[rapid.IntRange(0, 3).Draw(rt, "under")]
	if s.HasHookOps && s.Under == "Unsafe" {
		s.Under = "" // (the hook is bypassed under Unsafe(), also for the payload)
	}
	switch s.Kind {
	case "hook", "safemsg!", "safefmt", "psafefmt":
		if s.Under == "Unsafe" {
			s.Under = "" // redact-specific methods are bypassed under Unsafe(): no call, no panic
		}
	}
	return s
}

func TestC11Panic(t *testing.T) {
	rapidCheck(t, "C11Panic", func(rt *rapid.T) interface{} { return genPanicSpec(rt) })
}

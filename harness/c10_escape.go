package verifharness

// C10 — escaping removes every marker from arbitrary bytes and nothing else.

import (
	"bytes"
	"fmt"

	"github.com/cockroachdb/redact"
)

// EscSpec: one byte string, optionally an offset/flag for the internal routine.
type EscSpec struct {
	In    B    `json:"in"`
	Start int  `json:"start"` // startLoc for the internal routine (-1: public API only)
	Break bool `json:"break"`
}

func init() {
	register("C10Escape", "C10", func() interface{} { return &EscSpec{} }, func(s interface{}) Result { return checkC10Escape(s.(*EscSpec)) })
	register("C10Split", "C10", func() interface{} { return &SplitSpec{} }, func(s interface{}) Result { return checkC10Split(s.(*SplitSpec)) })
}

// refInternalEscape is the reference for the internal routine on the
// suffix b[start:]: markers -> '?'; if breakNL, each maximal run of line
// feeds is preceded by an end marker and followed by a start marker.
// The reference never elides delimiters; comparisons are made after
// normE (empty envelopes and adjacent envelopes are immaterial).
// The '?' after an invalid tail is decided by the caller.
func refInternalEscape(b []byte, start int, breakNL bool) []byte {
	out := append([]byte(nil), b[:start]...)
	for i := start; i < len(b); {
		if breakNL && b[i] == '\n' {
			out = append(out, endS...)
			for i < len(b) && b[i] == '\n' {
				out = append(out, '\n')
				i++
			}
			out = append(out, startS...)
			continue
		}
		if markerAt(b, i) != 0 {
			out = append(out, '?')
			i += 3
			continue
		}
		out = append(out, b[i])
		i++
	}
	return out
}

func checkC10Escape(s *EscSpec) Result {
	b := []byte(s.In)
	res := Result{NonTrivial: hasMarkerish(b)}
	if hasMarker(b) {
		res.Classes = append(res.Classes, "full-marker")
	} else if hasMarkerish(b) {
		res.Classes = append(res.Classes, "partial-marker-only")
	}
	fail := func(f string, a ...interface{}) Result {
		res.Err = fmt.Errorf(f, a...)
		return res
	}
	in0 := append([]byte(nil), b...)

	// EscapeMarkers
	em := redact.EscapeMarkers(b)
	want := esc(b)
	if !bytes.Equal(em, want) {
		return fail("EscapeMarkers(%s) = %s, want %s", q(b), q(em), q(want))
	}
	if hasMarker(em) {
		return fail("EscapeMarkers(%s) = %s still contains a marker", q(b), q(em))
	}
	if em2 := redact.EscapeMarkers(em); !bytes.Equal(em2, em) {
		return fail("EscapeMarkers not idempotent on %s: %s then %s", q(b), q(em), q(em2))
	}
	if !bytes.Equal(b, in0) {
		return fail("EscapeMarkers modified its input %s -> %s", q(in0), q(b))
	}

	// EscapeBytes
	eb := []byte(redact.EscapeBytes(b))
	if !bytes.Equal(b, in0) {
		return fail("EscapeBytes modified its input %s -> %s", q(in0), q(b))
	}
	if !LS(eb) {
		return fail("EscapeBytes(%s) = %s is not well-formed/line-safe", q(b), q(eb))
	}
	st := strip(eb)
	w1 := esc(b)
	w2 := append(append([]byte(nil), w1...), '?')
	switch {
	case tailTruncated(b):
		res.Classes = append(res.Classes, "tail-truncated")
		if !bytes.Equal(st, w2) {
			return fail("strip(EscapeBytes(%s)) = %s, want %s (truncated tail gets '?')", q(b), q(st), q(w2))
		}
	case tailInvalid(b):
		res.Classes = append(res.Classes, "tail-invalid-not-truncated")
		if !bytes.Equal(st, w1) && !bytes.Equal(st, w2) {
			return fail("strip(EscapeBytes(%s)) = %s, want %s or %s", q(b), q(st), q(w1), q(w2))
		}
	default:
		if !bytes.Equal(st, w1) {
			return fail("strip(EscapeBytes(%s)) = %s, want %s", q(b), q(st), q(w1))
		}
	}
	// redacted form: only redacted markers and the line feeds of b
	rd := []byte(redact.RedactableBytes(eb).Redact())
	rest := bytes.ReplaceAll(rd, []byte(redS), nil)
	if !bytes.Equal(rest, lfs(b)) {
		return fail("Redact(EscapeBytes(%s)) = %s: not (redacted marker | line feed)* with the line feeds of the input", q(b), q(rd))
	}
	if !bytes.Equal(delEnv(eb), lfs(b)) {
		return fail("EscapeBytes(%s) = %s: text outside envelopes is %s, want only the input's line feeds", q(b), q(eb), q(delEnv(eb)))
	}
	// idempotence of escaping through EscapeBytes: the content of the
	// envelopes, escaped again, is unchanged
	for _, e := range envs(eb) {
		if !bytes.Equal(redact.EscapeMarkers(e), e) {
			return fail("EscapeBytes(%s): envelope content %s still needs escaping", q(b), q(e))
		}
	}

	// internal routine
	if s.Start >= 0 && s.Start <= len(b) {
		in := append([]byte(nil), b...)
		got := redact.VerifInternalEscapeBytes(in, s.Start, s.Break, false)
		wantI := refInternalEscape(b, s.Start, s.Break)
		wantQ := append(append([]byte(nil), wantI...), '?')
		ok := false
		switch {
		case tailTruncated(b):
			ok = bytes.Equal(normE(got), normE(wantQ))
		case tailInvalid(b):
			ok = bytes.Equal(normE(got), normE(wantQ)) || bytes.Equal(normE(got), normE(wantI))
		default:
			ok = bytes.Equal(normE(got), normE(wantI))
		}
		if !ok {
			return fail("InternalEscapeBytes(%s, start=%d, break=%v) = %s, want %s (up to empty/adjacent envelopes, '?' after a truncated tail)", q(b), s.Start, s.Break, q(got), q(wantI))
		}
		if !bytes.Equal(in, b) {
			return fail("InternalEscapeBytes(%s, start=%d) modified its input in place: %s", q(b), s.Start, q(in))
		}
		if hasMarker(got[minInt(len(got), s.Start):]) && !s.Break {
			return fail("InternalEscapeBytes(%s, start=%d, break=false) = %s: marker left in the escaped suffix", q(b), s.Start, q(got))
		}
	}
	return res
}

func minInt(a, b int) int {
	if a < b {
		return a
	}
	return b
}

// SplitSpec: one payload, a list of cut points, a mode and a write method.
type SplitSpec struct {
	In     B      `json:"in"`
	Cuts   []int  `json:"cuts"`           // ascending offsets in [0,len]
	Unsafe bool   `json:"unsafe"`         // UnsafeEscaped vs SafeEscaped
	Str    []bool `json:"str"`            // per chunk: WriteString instead of Write
	Pre    B      `json:"pre"`            // raw prefix written first (library-produced fragment)
	Look   bool   `json:"look,omitempty"` // Len() and RedactableString() are called between the chunks
}

func writeSplit(s *SplitSpec, cuts []int) []byte {
	var mb redact.ManualBuffer
	if len(s.Pre) > 0 {
		mb.SetMode(redact.VerifSafeRaw)
		mb.Write(s.Pre)
	}
	if s.Unsafe {
		mb.SetMode(redact.VerifUnsafeEscaped)
	} else {
		mb.SetMode(redact.VerifSafeEscaped)
	}
	prev := 0
	k := 0
	emit := func(chunk []byte) {
		useStr := k < len(s.Str) && s.Str[k]
		k++
		if useStr {
			mb.WriteString(string(chunk))
		} else {
			mb.Write(chunk)
		}
	}
	for _, c := range cuts {
		if c < prev || c > len(s.In) {
			continue
		}
		emit(s.In[prev:c])
		prev = c
		if s.Look {
			// a caller that looks at the buffer between two chunks (the
			// accessors are read-only: the chunks still form one payload)
			_ = mb.Len()
			_ = mb.RedactableString()
		}
	}
	emit(s.In[prev:])
	return []byte(mb.RedactableBytes())
}

func checkC10Split(s *SplitSpec) Result {
	res := Result{NonTrivial: hasMarkerish(s.In) && len(s.Cuts) > 0}
	whole := writeSplit(s, nil)
	parts := writeSplit(s, s.Cuts)
	if !bytes.Equal(whole, parts) {
		res.Err = fmt.Errorf("payload %s (mode unsafe=%v, prefix %s): one write gives %s, split at %v gives %s",
			q(s.In), s.Unsafe, q(s.Pre), q(whole), s.Cuts, q(parts))
		return res
	}
	if !LS(whole) {
		res.Err = fmt.Errorf("payload %s (unsafe=%v prefix %s): result %s not line-safe", q(s.In), s.Unsafe, q(s.Pre), q(whole))
		return res
	}
	// cut inside a marker?
	for _, c := range s.Cuts {
		for d := 1; d <= 2; d++ {
			if c-d >= 0 && markerAt(s.In, c-d) != 0 {
				res.Classes = append(res.Classes, "cut-inside-marker")
			}
		}
	}
	return res
}

package verifharness

// C11 — printing never fails: all inputs accepted, user-method panics contained.

import (
	"bytes"
	"fmt"
	"strings"

	"github.com/cockroachdb/redact"
)

func init() {
	register("C11Edge", "C11", func() interface{} { return &EdgeSpec{} }, func(s interface{}) Result { return checkC11Edge(s.(*EdgeSpec)) })
	register("C11Join", "C11", func() interface{} { return &JoinEdge{} }, func(s interface{}) Result { return checkC11Join(s.(*JoinEdge)) })
	register("C11Fmt", "C11", func() interface{} { return &FmtCase{} }, func(s interface{}) Result { return checkC11Fmt(s.(*FmtCase)) })
	register("C11Panic", "C11", func() interface{} { return &PanicSpec{} }, func(s interface{}) Result { return checkC11Panic(s.(*PanicSpec)) })
}

// ---- edge values in every buffer state ---------------------------------------

// EdgeSpec: prefix ops, one edge op (any rune / byte / byte string), suffix ops,
// in a context.
type EdgeSpec struct {
	Prefix []*Op  `json:"prefix"`
	Edge   *Op    `json:"edge"`
	Suffix []*Op  `json:"suffix"`
	Ctx    string `json:"ctx"` // SB, MB, Sprintfn, SafeFormat
	// for the buffer-level edge ops (MBWriteRune/MBWriteByte): the escaping
	// mode set before the call (0 unsafe, 1 safe). In raw mode the caller
	// vouches for the bytes, so raw mode is not part of "any value accepted".
	EdgeMode int `json:"edgeMode,omitempty"`
}

func runOpsIn(ctx string, ops []*Op) (out []byte, panicVal interface{}, panicked bool) {
	defer func() {
		if r := recover(); r != nil {
			panicked, panicVal = true, r
		}
	}()
	switch ctx {
	case "SB":
		o, _ := runOnSB(ops, 0, nil)
		return o, nil, false
	case "MB":
		o, _ := runOnMB(ops, 0, nil)
		return o, nil, false
	case "Sprintfn":
		return runOnSprintfn(ops), nil, false
	case "SafeFormat":
		return runOnSafeFormatter(ops), nil, false
	}
	panic("HARNESS: unknown context " + ctx)
}

func checkC11Edge(s *EdgeSpec) Result {
	res := Result{NonTrivial: true, Classes: []string{"ctx:" + s.Ctx, "edge:" + s.Edge.K}}
	prefix := s.Prefix
	if strings.HasPrefix(s.Edge.K, "MB") {
		prefix = append(append([]*Op(nil), s.Prefix...), &Op{K: "MBSetMode", I: int64(s.EdgeMode % 2)})
	}
	all := append(append(append([]*Op(nil), prefix...), s.Edge), s.Suffix...)
	out, pv, panicked := runOpsIn(s.Ctx, all)
	if panicked {
		res.Err = fmt.Errorf("%s: %s with argument %d/%s panicked after %d ops: %v", s.Ctx, s.Edge.K, s.Edge.I, q(s.Edge.S), len(s.Prefix), pv)
		return res
	}
	if !LS(out) {
		res.Err = fmt.Errorf("%s: output %s not well-formed / line-safe", s.Ctx, q(out))
		return res
	}
	// what was written before is still there, what is written after still follows
	psegs, pexact := modelOps(s.Prefix, 0)
	ssegs, sexact := modelOps(s.Suffix, 0)
	st := strip(out)
	if pexact {
		if want := modelStrip(psegs); !bytes.HasPrefix(st, want) {
			res.Err = fmt.Errorf("%s: output %s (stripped %s) lost what was written before the %s: want prefix %s", s.Ctx, q(out), q(st), s.Edge.K, q(want))
			return res
		}
	}
	if sexact {
		if want := modelStrip(ssegs); !bytes.HasSuffix(st, want) {
			res.Err = fmt.Errorf("%s: output %s (stripped %s) lost what was written after the %s: want suffix %s", s.Ctx, q(out), q(st), s.Edge.K, q(want))
			return res
		}
	}
	// the edge op rendered something (a rune op renders exactly one rune; an
	// invalid one some replacement character)
	if pexact && sexact {
		mid := len(st) - len(modelStrip(psegs)) - len(modelStrip(ssegs))
		switch s.Edge.K {
		case "SafeRune", "UnsafeRune", "WriteRune", "MBWriteRune", "SafeByte", "UnsafeByte", "WriteByte", "MBWriteByte":
			if mid < 1 {
				res.Err = fmt.Errorf("%s: %s(%d) rendered nothing: output %s", s.Ctx, s.Edge.K, s.Edge.I, q(out))
			}
		}
	}
	return res
}

// ---- JoinTo with operands that are not slices -----------------------------------

type JoinEdge struct {
	Operand *Val   `json:"operand"`
	Delim   B      `json:"delim"`
	Ctx     string `json:"ctx"` // SB, Sprintfn
}

func joinEdgeRun(ctx string, f func(w redact.SafeWriter)) (out []byte, pv interface{}, panicked bool) {
	defer func() {
		if r := recover(); r != nil {
			panicked, pv = true, r
		}
	}()
	if ctx == "SB" {
		var sb redact.StringBuilder
		sb.UnsafeString("pre")
		f(&sb)
		sb.SafeString("post")
		return []byte(sb.RedactableString()), nil, false
	}
	return []byte(redact.Sprintfn(func(w redact.SafePrinter) {
		w.UnsafeString("pre")
		f(w)
		w.SafeString("post")
	})), nil, false
}

func isSliceKind(k string) bool {
	switch k {
	case "islice", "sslice", "intslice", "bslice", "errslice", "strgslice", "rsslice", "bytes", "nbytes", "nilslice":
		return true
	}
	return false
}

func checkC11Join(j *JoinEdge) Result {
	res := Result{NonTrivial: !isSliceKind(j.Operand.K), Classes: []string{"operand:" + j.Operand.K}}
	v := Build(j.Operand, 0)
	delim := redact.RedactableString(esc(j.Delim))
	got, pv, panicked := joinEdgeRun(j.Ctx, func(w redact.SafeWriter) { redact.JoinTo(w, delim, v) })
	if panicked {
		res.Err = fmt.Errorf("JoinTo(w, %s, <%s>) panicked: %v", qs(string(delim)), j.Operand.K, pv)
		return res
	}
	if !LS(got) {
		res.Err = fmt.Errorf("JoinTo with a %s operand: output %s not line-safe", j.Operand.K, q(got))
		return res
	}
	if !isSliceKind(j.Operand.K) {
		// "just print the value as-is"
		want, _, wp := joinEdgeRun(j.Ctx, func(w redact.SafeWriter) { w.Print(v) })
		if wp {
			return res
		}
		if !bytes.Equal(got, want) {
			res.Err = fmt.Errorf("JoinTo(w, delim, <%s>) gives %s; printing the value as-is gives %s", j.Operand.K, q(got), q(want))
		}
	}
	return res
}

// ---- any print case: no panic escapes unless a nested panic is present -----------

func valHasNestedPanic(v *Val) bool {
	if v == nil {
		return false
	}
	if strings.HasSuffix(v.K, "!") {
		for _, s := range v.Sub {
			if containsPanicker(s) {
				return true
			}
		}
	}
	for _, s := range v.Sub {
		if valHasNestedPanic(s) {
			return true
		}
	}
	for _, k := range v.Keys {
		if valHasNestedPanic(k) {
			return true
		}
	}
	if opsHaveNestedPanic(v.Ops) {
		return true
	}
	if v.Pr != nil {
		for _, a := range v.Pr.Args {
			if valHasNestedPanic(a) {
				return true
			}
		}
	}
	return false
}

func containsPanicker(v *Val) bool {
	if v == nil {
		return false
	}
	if strings.HasSuffix(v.K, "!") {
		return true
	}
	for _, s := range v.Sub {
		if containsPanicker(s) {
			return true
		}
	}
	for _, op := range v.Ops {
		if op.K == "Panic" {
			return true
		}
	}
	return false
}

func opsHaveNestedPanic(ops []*Op) bool {
	for _, op := range ops {
		if op.K == "Panic" {
			for _, a := range op.Args {
				if containsPanicker(a) {
					return true
				}
			}
		}
		for _, a := range op.Args {
			if valHasNestedPanic(a) {
				return true
			}
		}
		if opsHaveNestedPanic(op.Ops) {
			return true
		}
	}
	return false
}

func checkC11Fmt(c *FmtCase) Result {
	var res Result
	nested := opsHaveNestedPanic(c.Hook)
	anyPanicker := false
	for _, a := range c.Args {
		if valHasNestedPanic(a) {
			nested = true
		}
		if containsPanicker(a) {
			anyPanicker = true
		}
	}
	res.NonTrivial = c.HasRaw || anyPanicker
	if anyPanicker {
		res.Classes = append(res.Classes, "panicking-method")
	}
	if nested {
		res.Classes = append(res.Classes, "nested-panic-present")
	}
	for _, a := range c.Args {
		if strings.HasPrefix(a.K, "nil") {
			res.Classes = append(res.Classes, "nil-operand")
			res.NonTrivial = true
		}
	}
	r := runCase(c, 0)
	if r.panicked {
		if !nested {
			res.Err = fmt.Errorf("%s(%s, ...) panicked although no panic is raised while printing a panic payload: %v", c.Route, qs(c.Format()), r.panicVal)
		}
		res.Classes = append(res.Classes, "panic-propagated")
		return res
	}
	if !LS(r.out) {
		res.Err = fmt.Errorf("%s(%s, ...): output %s not line-safe", c.Route, qs(c.Format()), q(r.out))
	}
	return res
}

// ---- contained panics: text before and after is intact ------------------------------

// PanicSpec: A <directive applied to a panicking value> B
type PanicSpec struct {
	A       B          `json:"a"`       // literal before (no '%')
	AArg    *Val       `json:"aArg"`    // operand printed with %v before (optional)
	Dir     *Directive `json:"dir"`     // directive reaching the panicking value
	Kind    string     `json:"kind"`    // stringer!, err!, gostr!, safemsg!, fmter, safefmt, psafefmt, hook
	Partial []*Op      `json:"partial"` // ops executed before the panic (Formatter / SafeFormatter / hook)
	Payload *Val       `json:"payload"`
	BLit    B          `json:"b"`
	BArg    *Val       `json:"bArg"`
	Under   string     `json:"under"` // "", Unsafe, Slice
	// HookOps: for kinds other than "hook", a (non-panicking) error hook
	// installed for the whole call: it renders error payloads, and may print
	// operands of its own whose methods panic (contained inside the hook)
	HookOps    []*Op `json:"hookOps,omitempty"`
	HasHookOps bool  `json:"hasHookOps,omitempty"`
}

var panicMethodName = map[string]string{"stringer!": "String", "pstringer!": "String", "err!": "Error", "perr!": "Error", "gostr!": "GoString",
	"safemsg!": "SafeMessager", "fmter": "Format", "safefmt": "SafeFormat", "psafefmt": "SafeFormat", "hook": "SafeFormatter"}

func (s *PanicSpec) value(truncated bool) *Val {
	payload := s.Payload
	switch s.Kind {
	case "fmter", "safefmt", "psafefmt":
		ops := append([]*Op(nil), s.Partial...)
		if !truncated {
			ops = append(ops, &Op{K: "Panic", Args: []*Val{payload}})
		}
		return &Val{K: s.Kind, Ops: ops}
	case "hook":
		return &Val{K: "err", S: B("hooked")}
	}
	return &Val{K: s.Kind, S: B("unused"), Sub: []*Val{payload}}
}

func (s *PanicSpec) wrap(v interface{}) interface{} {
	switch s.Under {
	case "Unsafe":
		return redact.Unsafe(v)
	case "Slice":
		return []interface{}{v}
	}
	return v
}

func checkC11Panic(s *PanicSpec) Result {
	res := Result{NonTrivial: true, Classes: []string{"method:" + panicMethodName[s.Kind], "under:" + s.Under}}
	if len(s.Partial) > 0 {
		res.Classes = append(res.Classes, "after-partial-output")
	}
	d := s.Dir.String()
	verb := string([]rune(string(s.Dir.Verb))[:1]) // (an invalid byte decodes to U+FFFD)
	hookOps := []*Op(nil)
	hasHook := s.Kind == "hook"
	if hasHook {
		hookOps = append(append([]*Op(nil), s.Partial...), &Op{K: "Panic", Args: []*Val{s.Payload}})
	}
	if !hasHook && s.HasHookOps {
		applyConfig(nil, true, s.HookOps)
		res.Classes = append(res.Classes, "bystander-hook")
	} else {
		applyConfig(nil, hasHook, hookOps)
	}
	defer resetConfig()

	aArgs, bArgs := []interface{}{}, []interface{}{}
	aFmt, bFmt := escPercent(s.A), escPercent(s.BLit)
	if s.AArg != nil {
		aArgs = append(aArgs, Build(s.AArg, 0))
		aFmt += "%v"
	}
	if s.BArg != nil {
		bArgs = append(bArgs, Build(s.BArg, 0))
		bFmt = "%v" + bFmt
	}
	full := callRedact("Sprintf", aFmt+d+bFmt, append(append(append([]interface{}{}, aArgs...), s.wrap(Build(s.value(false), 0))), bArgs...))
	// StringWithoutMarkers (the String() twin of a SafeFormat method) contains
	// what Sprint contains
	if sf, ok := Build(s.value(false), 0).(redact.SafeFormatter); ok {
		ref := callRedact("Sprint", "", []interface{}{sf})
		var got string
		p, pv := guard(func() { got = redact.StringWithoutMarkers(sf) })
		if p != ref.panicked {
			res.Err = fmt.Errorf("StringWithoutMarkers(x): panicked=%v (%v), Sprint(x): panicked=%v", p, pv, ref.panicked)
			return res
		}
		if !p && got != string(strip(ref.out)) {
			res.Err = fmt.Errorf("StringWithoutMarkers(x) = %s, Sprint(x) stripped = %s", qs(got), q(strip(ref.out)))
			return res
		}
		res.Classes = append(res.Classes, "StringWithoutMarkers")
	}
	// a panic raised while printing the payload propagates (as in fmt): the
	// payload's own method panics, or the payload is an error and the
	// panicking hook is asked to render it
	nested := containsPanicker(s.Payload) || (hasHook && (s.Payload.K == "serr" || s.Payload.K == "err"))
	if full.panicked {
		if !nested {
			res.Err = fmt.Errorf("Sprintf(%s, ...): the panic of the %s method escaped: %v", qs(aFmt+d+bFmt), panicMethodName[s.Kind], full.panicVal)
		}
		res.Classes = append(res.Classes, "nested-panic-propagates")
		return res
	}
	if nested {
		// (a nested panic inside a nested printer can be contained there: fine)
		res.Classes = append(res.Classes, "nested-panic-contained")
		if !LS(full.out) {
			res.Err = fmt.Errorf("output %s not line-safe", q(full.out))
		}
		return res
	}
	// expectation by composition
	pa := callRedact("Sprintf", aFmt, aArgs)
	pb := callRedact("Sprintf", bFmt, bArgs)
	var emitted []byte
	if len(s.Partial) > 0 {
		if hasHook {
			applyConfig(nil, true, s.Partial)
		}
		em := callRedact("Sprintf", d, []interface{}{s.wrap(Build(s.value(true), 0))})
		if hasHook {
			applyConfig(nil, true, hookOps)
		}
		emitted = em.out
		if s.Under == "Slice" {
			open, close := sliceBrackets(s.Dir)
			emitted = bytes.TrimSuffix(bytes.TrimPrefix(emitted, []byte(open)), []byte(close))
		}
	}
	payload := callRedact("Sprintf", "%v", []interface{}{Build(s.Payload, 0)})
	if pa.panicked || pb.panicked || payload.panicked {
		return res
	}
	reportHead := "%!" + verb + "(PANIC=" + panicMethodName[s.Kind] + " method: "
	pay := payload.out
	if s.Under == "Unsafe" {
		// everything under Unsafe() is unsafe, including the report's own text:
		// judged by the (stripped text, text outside envelopes) pair
		if !LS(full.out) {
			res.Err = fmt.Errorf("output %s not line-safe", q(full.out))
			return res
		}
		mid := append(append(append(strip(emitted), esc([]byte(reportHead))...), strip(pay)...), ')')
		wantStrip := append(append(strip(pa.out), mid...), strip(pb.out)...)
		wantSafe := append(append(delEnv(pa.out), lfs(mid)...), delEnv(pb.out)...)
		if !bytes.Equal(strip(full.out), wantStrip) || !bytes.Equal(delEnv(full.out), wantSafe) {
			res.Err = fmt.Errorf("Sprintf(%s, ...) with a %s method panicking under Unsafe(): got %s; want stripped text %s and text outside envelopes %s",
				qs(aFmt+d+bFmt), panicMethodName[s.Kind], q(full.out), q(wantStrip), q(wantSafe))
		}
		return res
	}
	var rep []byte
	rep = append(rep, esc([]byte(reportHead))...)
	rep = append(rep, pay...)
	rep = append(rep, ')')
	mid := append(append([]byte(nil), emitted...), rep...)
	if s.Under == "Slice" {
		open, close := sliceBrackets(s.Dir)
		mid = append(append([]byte(open), mid...), close...)
	}
	want := append(append(append([]byte(nil), pa.out...), mid...), pb.out...)
	if !bytes.Equal(normE(full.out), normE(want)) {
		res.Err = fmt.Errorf("Sprintf(%s, ...) with a %s method panicking (payload %s, %d ops before): got %s, want %s (text before + partial output + report + text after)",
			qs(aFmt+d+bFmt), panicMethodName[s.Kind], s.Payload.K, len(s.Partial), q(full.out), q(want))
	}
	return res
}

// sliceBrackets: how fmt brackets a []interface{} under the directive.
func sliceBrackets(d *Directive) (string, string) {
	if string(d.Verb) == "v" && strings.Contains(d.Flags, "#") {
		return "[]interface {}{", "}"
	}
	return "[", "]"
}

func escPercent(b []byte) string { return strings.ReplaceAll(string(b), "%", "%%") }

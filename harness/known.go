package verifharness

import (
	"encoding/json"
	"os"
	"path/filepath"
)

// known.go: known findings that are excluded by construction from the
// generators while they are open (../known_findings.json).

type knownFile struct {
	Open []struct {
		ID string `json:"id"`
	} `json:"open"`
}

var knownOpenIDs map[string]bool

func knownOpen(id string) bool {
	if knownOpenIDs == nil {
		knownOpenIDs = map[string]bool{}
		dir := os.Getenv("VERIF_DIR")
		if dir == "" {
			dir = "/verif"
		}
		raw, err := os.ReadFile(filepath.Join(dir, "known_findings.json"))
		if err == nil {
			var kf knownFile
			if json.Unmarshal(raw, &kf) == nil {
				for _, o := range kf.Open {
					knownOpenIDs[o.ID] = true
				}
			}
		}
	}
	return knownOpenIDs[id]
}

// stripReassembles: deleting the markers of s (one pass) yields a string
// that contains a marker again. Only possible for invalid UTF-8.
func stripReassembles(s []byte) bool {
	return hasMarker(strip(s))
}

package verifharness

// C14 — format forwarding reproduces the active directive exactly.

import (
	"fmt"
	"math"
	"strings"

	"github.com/cockroachdb/redact"
)

// C14Spec: one directive (with optional '*' operands) and one operand kind.
type C14Spec struct {
	Dir     Directive `json:"dir"`
	StarW   int       `json:"starW,omitempty"`
	StarP   int       `json:"starP,omitempty"`
	Operand string    `json:"operand"`
	// StarKind: the Go kind of the '*' width operand ("" = int): uint64max,
	// uint64big (2^64-1000), uintmax, uintptrmax, int64min, uint8
	StarKind string `json:"starKind,omitempty"`
	// Sib: if set, the probe / forwarder is the second element of a slice
	// whose first element is this sibling (printed before it under the same
	// directive): zero, int, float, string, nil, bool
	Sib string `json:"sib,omitempty"`
}

var c14Siblings = map[string]interface{}{"zero": 0, "int": 7, "float": 2.5, "string": "ab", "nil": nil, "bool": true, "uzero": uint8(0)}
var c14SiblingNames = []string{"zero", "int", "float", "string", "nil", "bool", "uzero"}
var c14StarKinds = []string{"uint64max", "uint64big", "uintmax", "uintptrmax", "int64min", "uint8"}

func init() {
	register("C14Fwd", "C14", func() interface{} { return &C14Spec{} }, func(s interface{}) Result { return checkC14(s.(*C14Spec)) })
}

type stateTuple struct {
	plus, minus, sharp, space, zero bool
	wid                             int
	widOK                           bool
	prec                            int
	precOK                          bool
	verb                            rune
}

func readState(st fmt.State, verb rune) stateTuple {
	t := stateTuple{plus: st.Flag('+'), minus: st.Flag('-'), sharp: st.Flag('#'), space: st.Flag(' '), zero: st.Flag('0'), verb: verb}
	t.wid, t.widOK = st.Width()
	t.prec, t.precOK = st.Precision()
	// numbers are meaningful only together with their ok flag
	if !t.widOK {
		t.wid = 0
	}
	if !t.precOK {
		t.prec = 0
	}
	// a width that is present and zero (only reachable through '*') is not
	// expressible in a format string; it pads nothing, i.e. equals "absent"
	if t.widOK && t.wid == 0 {
		t.widOK = false
	}
	return t
}

func (t stateTuple) String() string {
	s := "%"
	for _, f := range []struct {
		b bool
		c string
	}{{t.plus, "+"}, {t.minus, "-"}, {t.sharp, "#"}, {t.space, " "}, {t.zero, "0"}} {
		if f.b {
			s += f.c
		}
	}
	if t.widOK {
		s += fmt.Sprint(t.wid)
	}
	if t.precOK {
		s += "." + fmt.Sprint(t.prec)
	}
	return s + string(t.verb)
}

func (t stateTuple) bareV() bool {
	return !t.plus && !t.minus && !t.sharp && !t.space && !t.zero && !t.widOK && !t.precOK && t.verb == 'v'
}

// probe records the state it is formatted under; level 1 also forwards.
type probe struct {
	useRedact bool
	level     int
	rec       *[]probeRecord
}

type probeRecord struct {
	zeroWid bool // the State reported a width that is present and zero
	level   int
	tuple   stateTuple
	justV   bool
	format  string
}

func (p probe) Format(st fmt.State, verb rune) {
	r := probeRecord{level: p.level, tuple: readState(st, verb)}
	if w, ok := st.Width(); ok && w == 0 {
		r.zeroWid = true
	}
	if p.level == 1 {
		r.justV, r.format = redact.MakeFormat(st, verb)
		*p.rec = append(*p.rec, r)
		inner := probe{useRedact: p.useRedact, level: 2, rec: p.rec}
		if p.useRedact {
			_ = redact.Sprintf(r.format, inner)
		} else {
			_ = fmt.Sprintf(r.format, inner)
		}
		return
	}
	*p.rec = append(*p.rec, r)
}

// fwdFormatter forwards with MakeFormat, like a user formatter would.
type fwdFormatter struct{ x interface{} }

func (f fwdFormatter) Format(st fmt.State, verb rune) {
	justV, format := redact.MakeFormat(st, verb)
	if justV {
		fmt.Fprint(st, f.x)
	} else {
		fmt.Fprintf(st, format, f.x)
	}
}

var c14Int = 42
var c14Operands = map[string]interface{}{
	"int": -42, "uint": uint(42), "float": 3.25, "complex": complex(1.5, -2), "string": "héllo", "bytes": []byte("by"), "bool": true,
	"pointer": &c14Int, "struct": struct {
		A int
		B string
	}{7, "s"}, "slice": []interface{}{1, "a"}, "stringer": StringerV{S: "strg"}, "error": ErrV{S: "err"}, "nil": nil,
}
var c14OperandNames = []string{"int", "uint", "float", "complex", "string", "bytes", "bool", "pointer", "struct", "slice", "stringer", "error", "nil", "nilformatter", "nilstringer", "formatter"}

// c14Fmt: a Formatter with a pointer receiver that dereferences it (the nil
// pointer makes it panic: fmt prints <nil>)
type c14Fmt struct{ x int }

func (p *c14Fmt) Format(st fmt.State, verb rune) { fmt.Fprintf(st, "F(%d,%c)", p.x, verb) }

func init() {
	c14Operands["nilformatter"] = (*c14Fmt)(nil)
	c14Operands["nilstringer"] = (*StringerP)(nil)
	c14Operands["formatter"] = &c14Fmt{x: 3}
}

func (s *C14Spec) args(x interface{}) []interface{} {
	var a []interface{}
	if s.Dir.Width == "*" {
		switch s.StarKind {
		case "uint64max":
			a = append(a, uint64(math.MaxUint64))
		case "uint64big":
			a = append(a, uint64(math.MaxUint64-999))
		case "uintmax":
			a = append(a, uint(math.MaxUint))
		case "uintptrmax":
			a = append(a, ^uintptr(0))
		case "int64min":
			a = append(a, int64(math.MinInt64))
		case "uint8":
			a = append(a, uint8(s.StarW))
		default:
			a = append(a, s.StarW)
		}
	}
	if s.Dir.Prec == ".*" {
		a = append(a, s.StarP)
	}
	if s.Sib != "" {
		x = []interface{}{c14Siblings[s.Sib], x}
	}
	return append(a, x)
}

// comparable form of a state for the comparison between fmt and redact:
// with '-' the '0' flag is ignored (and reported differently by Go releases)
func (t stateTuple) crossForm() stateTuple {
	if t.minus {
		t.zero = false
	}
	return t
}

func checkC14(s *C14Spec) Result {
	d := s.Dir.String()
	res := Result{NonTrivial: d != "%v"}
	verb := []rune(string(s.Dir.Verb))
	dispatched := !(len(verb) == 1 && (verb[0] == 'T' || verb[0] == 'p' || verb[0] == 'w'))
	fail := func(f string, a ...interface{}) Result {
		res.Err = fmt.Errorf("directive %s (star width %d, star precision %d): %s", qs(d), s.StarW, s.StarP, fmt.Sprintf(f, a...))
		return res
	}
	// (R) round trip of the observed state, under fmt's State and under redact's printer
	var seen [2]stateTuple
	for ri, useRedact := range []bool{false, true} {
		name := "fmt.State"
		if useRedact {
			name = "redact's printer"
		}
		var rec []probeRecord
		p := probe{useRedact: useRedact, level: 1, rec: &rec}
		if useRedact {
			_ = redact.Sprintf(d, s.args(p)...)
		} else {
			_ = fmt.Sprintf(d, s.args(p)...)
		}
		if !dispatched {
			if len(rec) != 0 {
				return fail("under %s the Format method was called for a verb that is never dispatched", name)
			}
			continue
		}
		if len(rec) != 2 {
			return fail("under %s: %d probe records, want 2 (MakeFormat's format %v did not dispatch the inner probe once)", name, len(rec), rec)
		}
		t1, t2 := rec[0].tuple, rec[1].tuple
		seen[ri] = t1
		if t1 != t2 {
			return fail("under %s: the active directive is %v, MakeFormat returned %s, which re-creates %v", name, t1, qs(rec[0].format), t2)
		}
		// justV must be reported for bare %v and only for it; for "%*v" with a
		// zero width (equivalent to, but not literally, %v) either answer is fine
		if rec[0].justV != t1.bareV() && !(t1.bareV() && rec[0].zeroWid) {
			return fail("under %s: justV=%v for state %v", name, rec[0].justV, t1)
		}
		if rec[0].justV && rec[0].format != "%v" {
			return fail("under %s: justV with format %s", name, qs(rec[0].format))
		}
	}
	if !dispatched {
		return res
	}
	// (D) the state redact's printer reports is the one fmt reports
	if seen[0].crossForm() != seen[1].crossForm() {
		return fail("the Formatter sees %v under fmt and %v under redact", seen[0], seen[1])
	}
	if s.Sib != "" {
		res.Classes = append(res.Classes, "after-sibling")
	}
	if s.StarKind != "" {
		res.Classes = append(res.Classes, "star-kind:"+s.StarKind)
	}
	// (P) wrappers and forwarding formatters print like the direct call
	x := c14Operands[s.Operand]
	if s.Sib != "" && (s.Operand == "nil" || s.Operand == "bytes" || s.Operand == "pointer") {
		// (renderings that depend on the nesting depth: a nil element prints
		// as <nil> under every verb, a nested []byte is "[]uint8" in Go
		// syntax; a forwarder prints its value at depth 0)
		return res
	}
	direct := fmt.Sprintf(d, s.args(x)...)
	if got := fmt.Sprintf(d, s.args(redact.Safe(x))...); got != direct {
		return fail("fmt prints %s for Safe(%s) but %s for the value itself", qs(got), s.Operand, qs(direct))
	}
	if got := fmt.Sprintf(d, s.args(redact.Unsafe(x))...); got != direct {
		return fail("fmt prints %s for Unsafe(%s) but %s for the value itself", qs(got), s.Operand, qs(direct))
	}
	if got := fmt.Sprintf(d, s.args(fwdFormatter{x})...); got != direct {
		return fail("under fmt a formatter forwarding with MakeFormat prints %s, the direct call %s (operand %s)", qs(got), qs(direct), s.Operand)
	}
	rdirect := redact.Sprintf(d, s.args(x)...).StripMarkers()
	if got := redact.Sprintf(d, s.args(fwdFormatter{x})...).StripMarkers(); got != rdirect {
		return fail("under redact a formatter forwarding with MakeFormat prints %s, the direct call %s (operand %s)", qs(got), qs(rdirect), s.Operand)
	}
	if strings.ContainsAny(s.Dir.Flags, "0") && strings.ContainsAny(s.Dir.Flags, "-") {
		res.Classes = append(res.Classes, "zero-and-minus")
	}
	return res
}

package verifharness

// firstuse.go: every public entry point as the FIRST use of the library in a
// process (C12: a call's result depends only on its own arguments - also not
// on whether some other entry point ran before it; C07 for the marker
// transformations). A freshly started copy of the test binary makes the
// call under test before any other library call (package initialisation of
// the harness only builds values), then all other calls; the results are
// compared with those of this (warm) process.

import (
	"bytes"
	"encoding/hex"
	"fmt"
	"os"
	"os/exec"
	"reflect"
	"sort"
	"strings"
	"sync"

	"github.com/cockroachdb/redact"
)

type firstUseCall struct {
	name string
	prop string
	run  func() string
}

type fuFormatter struct{}

func (fuFormatter) Format(st fmt.State, verb rune) {
	_, f := redact.MakeFormat(st, verb)
	fmt.Fprintf(st, "<"+f+">", 7)
}

type fuRegistered struct{ A string }

const fuText = "a ‹b\nc› d ‹e› ‹‹f›› ×"

var firstUseCalls = []firstUseCall{
	{"RedactableString.StripMarkers", "C07", func() string { return redact.RedactableString(fuText).StripMarkers() }},
	{"RedactableBytes.StripMarkers", "C07", func() string { return string(redact.RedactableBytes(fuText).StripMarkers()) }},
	{"RedactableString.Redact", "C07", func() string { return string(redact.RedactableString(fuText).Redact()) }},
	{"RedactableBytes.Redact", "C07", func() string { return string(redact.RedactableBytes(fuText).Redact()) }},
	{"EscapeMarkers", "C07", func() string { return string(redact.EscapeMarkers([]byte(fuText))) }},
	{"EscapeBytes", "C07", func() string { return string(redact.EscapeBytes([]byte(fuText))) }},
	{"ToBytes.ToString", "C07", func() string { return string(redact.RedactableString(fuText).ToBytes().ToString()) }},
	{"Markers", "C07", func() string {
		return string(redact.StartMarker()) + string(redact.EndMarker()) + string(redact.RedactedMarker())
	}},
	{"StringWithoutMarkers", "C07", func() string { return redact.StringWithoutMarkers(redact.RedactableString(fuText)) }},
	{"Sprint", "C12", func() string {
		return string(redact.Sprint("u‹\n", redact.Safe("s"), 3, nil, []interface{}{"x", 1.5}))
	}},
	{"Sprintf", "C12", func() string {
		return string(redact.Sprintf("%+v %#v %08.3f %x %q %[1]T %!", struct{ A, b interface{} }{"u", 2}, "g", 3.25, "hx", '‹'))
	}},
	{"Sprintfn", "C12", func() string {
		return string(redact.Sprintfn(func(w redact.SafePrinter) { w.SafeString("s"); w.UnsafeString("u›"); w.Printf("%d%s", 1, "v") }))
	}},
	{"Fprint", "C12", func() string {
		var b bytes.Buffer
		n, err := redact.Fprint(&b, "a", 1, "b\n")
		return fmt.Sprint(b.String(), n, err)
	}},
	{"Fprintf", "C12", func() string {
		var b bytes.Buffer
		n, err := redact.Fprintf(&b, "%5d|%-5s|", 42, "é‹")
		return fmt.Sprint(b.String(), n, err)
	}},
	{"HelperForErrorf", "C12", func() string {
		s, err := redact.HelperForErrorf("x %d: %w", 1, os.ErrNotExist)
		return fmt.Sprint(string(s), err == os.ErrNotExist)
	}},
	{"StringBuilder", "C12", func() string {
		var sb redact.StringBuilder
		sb.SafeString("s ")
		sb.UnsafeString("u\n‹")
		sb.Print("p", 1)
		sb.SafeRune('r')
		sb.UnsafeByte('b')
		sb.WriteString("w")
		return fmt.Sprint(string(sb.RedactableString()), sb.Len(), sb.String())
	}},
	{"PrintStringBuilder", "C12", func() string {
		var sb redact.StringBuilder
		sb.UnsafeString("open")
		return string(redact.Sprintf("%v|%v", sb, &sb))
	}},
	{"Join", "C12", func() string { return string(redact.Join(", ", []redact.RedactableString{"a", "‹b›", ""})) }},
	{"JoinTo", "C12", func() string {
		var sb redact.StringBuilder
		redact.JoinTo(&sb, "-", []string{"x", "y‹"})
		return string(sb.RedactableString())
	}},
	{"SortStrings", "C12", func() string {
		s := []redact.RedactableString{"b", "‹a›", "a"}
		redact.SortStrings(s)
		return fmt.Sprint(s)
	}},
	{"MakeFormat", "C12", func() string {
		return string(redact.Sprintf("%+08.3d|%v|%-4x", fuFormatter{}, fuFormatter{}, fuFormatter{}))
	}},
	{"Unsafe", "C12", func() string {
		return string(redact.Sprintf("%v %d", redact.Unsafe(redact.SafeString("s")), redact.Unsafe(3)))
	}},
	{"SafeTypes", "C12", func() string {
		return string(redact.Sprint(redact.SafeInt(1), redact.SafeUint(2), redact.SafeFloat(1.5), redact.SafeRune('r'), SVStr("sv"), redact.RedactableString("‹r›"), redact.RedactableBytes("‹b›")))
	}},
	{"ErrorOperand", "C12", func() string {
		return string(redact.Sprintf("%v %+v", os.ErrClosed, fmt.Errorf("w: %w", os.ErrClosed)))
	}},
	{"PanickingMethod", "C12", func() string {
		return string(redact.Sprint(StringerV{S: "x", pan: func() interface{} { return "boom" }}, (*StringerP)(nil)))
	}},
	{"MapAndPointer", "C12", func() string {
		return string(redact.Sprintf("%v %v", map[interface{}]interface{}{2: "b", "a": 1, 1.5: nil}, &struct{ A []byte }{[]byte("x‹")}))
	}},
	{"RegisterSafeType", "C12", func() string {
		redact.RegisterSafeType(reflect.TypeOf(fuRegistered{}))
		defer redact.VerifResetSafeTypes()
		return string(redact.Sprint(fuRegistered{"reg"}, []fuRegistered{{"in"}}))
	}},
	{"ErrorHook", "C12", func() string {
		redact.RegisterRedactErrorFn(func(err error, p redact.SafePrinter, verb rune) { p.Printf("hook(%c,%s)", verb, err.Error()) })
		defer redact.RegisterRedactErrorFn(nil)
		return string(redact.Sprintf("%v %d", os.ErrClosed, []error{os.ErrClosed}))
	}},
}

var warmMu sync.Mutex

// FirstUseSpec names the entry point that is called first.
type FirstUseSpec struct {
	Entry string `json:"entry"`
	// Conc: the first call is made by 8 goroutines at once
	Conc bool `json:"conc,omitempty"`
}

func init() {
	for _, prop := range []string{"C07", "C12"} {
		register("FirstUse"+prop, prop, func() interface{} { return &FirstUseSpec{} }, func(s interface{}) Result { return checkFirstUse(s.(*FirstUseSpec)) })
	}
}

// firstUseResults: the named call first, then all calls in table order.
func firstUseResults(first string, conc bool) map[string]string {
	out := map[string]string{}
	call := func(c firstUseCall) (s string) {
		defer func() {
			if r := recover(); r != nil {
				s = fmt.Sprintf("PANIC: %v", r)
			}
		}()
		return c.run()
	}
	for _, c := range firstUseCalls {
		if c.name == first && !conc {
			out["first:"+c.name] = call(c)
		}
		if c.name == first && conc && !touchesGlobalConfig[c.name] {
			// several goroutines make the first call at the same time
			var wg sync.WaitGroup
			got := make([]string, 8)
			start := make(chan struct{})
			for g := range got {
				wg.Add(1)
				go func(g int) {
					defer wg.Done()
					<-start
					got[g] = call(c)
				}(g)
			}
			close(start)
			wg.Wait()
			for g := range got {
				out[fmt.Sprintf("first[%d]:%s", g, c.name)] = got[g]
			}
		}
	}
	for _, c := range firstUseCalls {
		out[c.name] = call(c)
	}
	return out
}

// entry points that change process-wide configuration while they run are
// not called concurrently with themselves
var touchesGlobalConfig = map[string]bool{"RegisterSafeType": true, "ErrorHook": true}

// firstUseChild is run by TestMain in the subprocess, before anything else.
func firstUseChild(first string, conc bool) {
	res := firstUseResults(first, conc)
	var keys []string
	for k := range res {
		keys = append(keys, k)
	}
	sort.Strings(keys)
	for _, k := range keys {
		fmt.Printf("FIRSTUSE %s %s\n", hex.EncodeToString([]byte(k)), hex.EncodeToString([]byte(res[k])))
	}
}

func checkFirstUse(s *FirstUseSpec) Result {
	res := Result{NonTrivial: true, Classes: []string{"first:" + s.Entry}}
	cmd := exec.Command(os.Args[0], "-test.run", "^$")
	cmd.Env = append(os.Environ(), "VERIF_FIRST_USE="+s.Entry, "VERIF_OUT=", "VERIF_FAILFILE=")
	if s.Conc {
		cmd.Env = append(cmd.Env, "VERIF_FIRST_USE_CONC=1")
		res.Classes = append(res.Classes, "concurrent-first-call")
	}
	var stderr bytes.Buffer
	cmd.Stderr = &stderr
	outb, err := cmd.Output()
	if bytes.Contains(stderr.Bytes(), []byte("DATA RACE")) {
		res.Err = fmt.Errorf("a fresh process in which 8 goroutines make %s their first library call: %s", s.Entry, firstLines(stderr.Bytes(), 40))
		return res
	}
	fresh := map[string]string{}
	for _, line := range strings.Split(string(outb), "\n") {
		f := strings.Fields(line)
		if len(f) >= 2 && f[0] == "FIRSTUSE" {
			k, _ := hex.DecodeString(f[1])
			v := []byte{}
			if len(f) >= 3 {
				v, _ = hex.DecodeString(f[2])
			}
			fresh[string(k)] = string(v)
		}
	}
	// (the warm results are computed by one check at a time: some entry
	// points install and remove process-wide configuration)
	warmMu.Lock()
	warm := firstUseResults(s.Entry, s.Conc)
	warmMu.Unlock()
	if len(fresh) != len(warm) {
		// the child died (or never started): report what it said
		if len(fresh) == 0 && err != nil && !bytes.Contains(outb, []byte("FIRSTUSE")) {
			if stderr.Len() > 0 {
				res.Err = fmt.Errorf("a fresh process whose first library call is %s died: %v: %s", s.Entry, err, firstLines(stderr.Bytes(), 6))
				return res
			}
			panic(fmt.Sprintf("HARNESS: first-use subprocess: %v", err))
		}
		res.Err = fmt.Errorf("a fresh process whose first library call is %s reported %d results, want %d (%v)", s.Entry, len(fresh), len(warm), err)
		return res
	}
	var keys []string
	for k := range warm {
		keys = append(keys, k)
	}
	sort.Strings(keys)
	for _, k := range keys {
		if fresh[k] != warm[k] {
			res.Err = fmt.Errorf("in a fresh process whose first library call is %s, %s gives %s; in this warm process %s", s.Entry, k, qs(fresh[k]), qs(warm[k]))
			return res
		}
	}
	return res
}

func firstLines(b []byte, n int) string {
	l := strings.SplitN(string(b), "\n", n+1)
	if len(l) > n {
		l = l[:n]
	}
	return strings.Join(l, " | ")
}

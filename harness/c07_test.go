package verifharness

import (
	"bytes"
	"sync"
	"testing"

	"pgregory.net/rapid"
)

var enumTokensC07 = [][]byte{[]byte(startS), []byte(endS), []byte("×"), []byte("\n"), []byte("a"), {0xE2}, {0x80}, {0xB9}, {0xBA}}

func tokensToBytes(tokens [][]byte, idx []byte) []byte {
	var out []byte
	for _, i := range idx {
		out = append(out, tokens[i]...)
	}
	return out
}

// TestEnumC07: all strings of up to VERIF_BOUND tokens over the first
// VERIF_ALPHA tokens; every split point for the concatenation law.
func TestEnumC07(t *testing.T) {
	bound := envInt("VERIF_BOUND", 5)
	na := envInt("VERIF_ALPHA", 8)
	toks := enumTokensC07[:na]
	idxAlpha := make([]byte, na)
	for i := range idxAlpha {
		idxAlpha[i] = byte(i)
	}
	var mu sync.Mutex
	var failed *RStr
	var failErr error
	enumStrings(idxAlpha, bound, 16, func(idx []byte) bool {
		s := tokensToBytes(toks, idx)
		spec := &RStr{S: s}
		res := checks["C07Laws"].runSafely(spec)
		if res.Err == nil {
			// concatenation law at every token boundary
			for cut := 1; cut < len(idx) && res.Err == nil; cut++ {
				sp := &RStr{S: tokensToBytes(toks, idx[:cut]), S2: tokensToBytes(toks, idx[cut:])}
				if !WF(sp.S) || !WF(sp.S2) {
					continue
				}
				r2 := checks["C07Laws"].runSafely(sp)
				if r2.Err != nil {
					res.Err, spec = r2.Err, sp
				}
			}
		}
		col.CaseFP("C07Laws(enum)", fingerprint(s), res.NonTrivial, func() interface{} { return spec }, res.Classes...)
		if res.Err != nil {
			mu.Lock()
			if failed == nil || len(spec.S)+len(spec.S2) < len(failed.S)+len(failed.S2) {
				failed, failErr = spec, res.Err
			}
			mu.Unlock()
			return false
		}
		return true
	})
	if failed != nil {
		enumFail(t, "C07Laws", failed, failErr)
	}
	col.Exhaustive("C07Laws(enum)", "all strings of <= "+itoa(bound)+" tokens over {start marker, end marker, cross, LF, 'a', E2, 80, B9, BA}[:"+itoa(na)+"]; concatenation law at every token boundary")
}

// genRedactableish draws a string biased towards well-formed ones.
func genRedactableish(rt *rapid.T, label string) []byte {
	n := rapid.IntRange(0, 30).Draw(rt, label+"_n")
	wf := rapid.IntRange(0, 3).Draw(rt, label+"_wf") > 0
	var out []byte
	open := false
	for i := 0; i < n; i++ {
		k := rapid.IntRange(0, len(byteAlphabet)+3).Draw(rt, label+"_t")
		if k >= len(byteAlphabet) {
			// toggle envelope
			if open {
				out = append(out, endS...)
			} else {
				out = append(out, startS...)
			}
			open = !open
			continue
		}
		tok := byteAlphabet[k]
		if wf && hasMarkerish(tok) {
			tok = []byte("m")
		}
		out = append(out, tok...)
	}
	if open && wf {
		out = append(out, endS...)
	}
	return out
}

func TestC07Laws(t *testing.T) {
	rapidCheck(t, "C07Laws", func(rt *rapid.T) interface{} {
		s := &RStr{S: genRedactableish(rt, "s")}
		if rapid.IntRange(0, 29).Draw(rt, "reasm") == 13 {
			// otherwise valid text of some size with one spot where removing a
			// marker joins the bytes around it into a marker again
			pat := [][]byte{[]byte("\xe2" + startS + "\x80\xb9"), []byte("\xe2\x80" + endS + "\xba"), []byte("\xe2" + endS + "\x80\xba"), []byte("\xe2\xe2" + startS + "\x80\xb9\x80\xb9")}[rapid.IntRange(0, 3).Draw(rt, "pat")]
			n := []int{0, 10, 500, 1020, 1100, 4090, 4200, 70000}[rapid.IntRange(0, 7).Draw(rt, "fill")]
			fill := bytes.Repeat([]byte("filler "), n/7+1)[:n]
			at := rapid.IntRange(0, n).Draw(rt, "at")
			s.S = append(append(append([]byte(nil), fill[:at]...), pat...), fill[at:]...)
		}
		if rapid.Bool().Draw(rt, "two") {
			s.S2 = genRedactableish(rt, "s2")
		}
		if rapid.IntRange(0, 119).Draw(rt, "scaled") == 77 {
			s.Scale = sizeThresholds[rapid.IntRange(0, len(sizeThresholds)-1).Draw(rt, "scale")] + rapid.IntRange(-40, 40).Draw(rt, "scaled")
		}
		return s
	})
}

package verifharness

import (
	"encoding/json"
	"fmt"
	"os"
	"strconv"
	"testing"
	"time"

	"pgregory.net/rapid"
)

func TestMain(m *testing.M) {
	if first := os.Getenv("VERIF_FIRST_USE"); first != "" {
		// (subprocess of the first-use checks: nothing else may touch the library before)
		firstUseChild(first, os.Getenv("VERIF_FIRST_USE_CONC") != "")
		os.Exit(0)
	}
	code := m.Run()
	col.Flush()
	os.Exit(code)
}

func envInt(name string, def int) int {
	if v := os.Getenv(name); v != "" {
		if n, err := strconv.Atoi(v); err == nil {
			return n
		}
	}
	return def
}

// rapidCheck drives a registered check with rapid. gen draws the spec.
func rapidCheck(t *testing.T, name string, gen func(*rapid.T) interface{}) {
	d := checks[name]
	if d == nil {
		t.Fatalf("unknown check %s", name)
	}
	rapid.Check(t, func(rt *rapid.T) {
		t0 := time.Now()
		spec := gen(rt)
		tg := time.Since(t0)
		res := d.runSafely(spec)
		if ms := envInt("VERIF_SLOW", 0); ms > 0 && time.Since(t0) > time.Duration(ms)*time.Millisecond {
			js, _ := json.Marshal(spec)
			if len(js) > 600 {
				js = append(js[:600:600], "..."...)
			}
			fmt.Printf("SLOW %s gen=%v total=%v spec(%d bytes)=%s\n", name, tg, time.Since(t0), len(js), js)
		}
		col.Case(name, spec, res)
		if res.Err != nil {
			recordFailure(d, spec, res.Err)
			js, _ := json.Marshal(spec)
			rt.Fatalf("%s: %v\nspec: %s", name, res.Err, js)
		}
	})
}

// enumFail reports the failure of an enumerated element.
func enumFail(t *testing.T, name string, spec interface{}, err error) {
	d := checks[name]
	recordFailure(d, spec, err)
	js, _ := json.Marshal(spec)
	t.Fatalf("%s: %v\nspec: %s", name, err, js)
}

// TestReplay re-executes the spec in $VERIF_REPLAY without rapid.
func TestReplay(t *testing.T) {
	path := os.Getenv("VERIF_REPLAY")
	if path == "" {
		t.Skip("VERIF_REPLAY not set")
	}
	raw, err := os.ReadFile(path)
	if err != nil {
		t.Fatalf("HARNESS-ERROR: %v", err)
	}
	var ff failureFile
	if err := json.Unmarshal(raw, &ff); err != nil {
		t.Fatalf("HARNESS-ERROR: %v", err)
	}
	d := checks[ff.Check]
	if d == nil {
		t.Fatalf("HARNESS-ERROR: unknown check %q", ff.Check)
	}
	spec := d.newSpec()
	if err := json.Unmarshal(ff.Spec, spec); err != nil {
		t.Fatalf("HARNESS-ERROR: spec: %v", err)
	}
	res := d.runSafely(spec)
	col.Case(d.name, spec, res)
	if res.Err != nil {
		recordFailure(d, spec, res.Err)
		fmt.Printf("REPLAY-FAILS check=%s\n%v\n", d.name, res.Err)
		t.Fatalf("replay fails: %v", res.Err)
	}
	fmt.Printf("REPLAY-PASSES check=%s\n", d.name)
}

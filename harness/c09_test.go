package verifharness

import (
	"fmt"
	"testing"

	"github.com/cockroachdb/redact"
	"pgregory.net/rapid"
)

func TestC09Hist(t *testing.T) {
	f1 := knownOpen("F1")
	rapidCheck(t, "C09Hist", func(rt *rapid.T) interface{} {
		cfg := &opConfig{ioSide: true, prints: true, maxTok: 5, noInvalidRunes: f1}
		switch rapid.IntRange(0, 3).Draw(rt, "cfg") {
		case 0:
			cfg.bytesAlpha = true
		case 1:
			cfg.mb = true
		case 2:
			cfg.mb, cfg.bytesAlpha = true, true
		}
		h := &HistSpec{Ops: genHistory(rt, cfg, 40)}
		if rapid.IntRange(0, 24).Draw(rt, "bulk") == 7 {
			at := rapid.IntRange(0, len(h.Ops)).Draw(rt, "bulkat")
			h.Ops = append(append(append([]*Op(nil), h.Ops[:at]...), genBulkOp(rt, cfg, "bulk")), h.Ops[at:]...)
		}
		if rapid.Bool().Draw(rt, "grow") {
			h.Grow = []int{1, 3, 7, 100}[rapid.IntRange(0, 3).Draw(rt, "growN")]
		}
		return h
	})
}

// enumOpInstances: the op instances of the exhaustive exploration.
func enumOpInstances() []*Op {
	var ops []*Op
	full := []string{"a", " ", "\n", startS, "é", "a\n" + startS, ""}
	few := []string{"a\n" + startS, endS, "\n"}
	for _, k := range []string{"SafeString", "UnsafeString"} {
		for _, p := range full {
			ops = append(ops, &Op{K: k, S: B(p)})
		}
	}
	for _, k := range []string{"SafeBytes", "UnsafeBytes", "Write", "WriteString"} {
		for _, p := range few {
			ops = append(ops, &Op{K: k, S: B(p)})
		}
	}
	for _, k := range []string{"SafeRune", "UnsafeRune", "WriteRune"} {
		for _, r := range []rune{'a', '\n', '‹', 'é'} {
			ops = append(ops, &Op{K: k, I: int64(r)})
		}
	}
	for _, k := range []string{"SafeByte", "UnsafeByte", "WriteByte"} {
		for _, c := range []byte{'a', '\n'} {
			ops = append(ops, &Op{K: k, I: int64(c)})
		}
	}
	ops = append(ops, &Op{K: "SafeInt", I: -1}, &Op{K: "SafeUint", I: 7}, &Op{K: "SafeFloat", F: "1.5"})
	ops = append(ops,
		&Op{K: "Print", Args: []*Val{{K: "SafeString", S: B("x")}}},
		&Op{K: "Print", Args: []*Val{{K: "str", S: B("s" + startS + "\n")}}},
		&Op{K: "Printf", S: B("%d" + endS), Args: []*Val{{K: "int", I: 1}}},
	)
	return ops
}

type bfsNode struct {
	path []*Op
	sb   *redact.StringBuilder
}

func sbKey(sb *redact.StringBuilder) string {
	st := sb.Buffer.VerifState()
	return fmt.Sprintf("%d|%v|%d|%s", st.Mode, st.MarkerOpen, st.ValidUntil, sb.Buffer.VerifRawBytes())
}

// TestEnumC09: breadth-first exploration of all op sequences up to
// VERIF_BOUND over enumOpInstances, with exact de-duplication of buffer
// states (hook). Every transition is judged against the model; every
// retained path is also run through ManualBuffer, Sprintfn and a
// SafeFormat method.
func TestEnumC09(t *testing.T) {
	bound := envInt("VERIF_BOUND", 3)
	insts := enumOpInstances()
	seen := map[string]bool{}
	root := &bfsNode{sb: &redact.StringBuilder{}}
	seen[sbKey(root.sb)] = true
	frontier := []*bfsNode{root}
	var transitions, states int64
	for depth := 1; depth <= bound; depth++ {
		var next []*bfsNode
		for _, n := range frontier {
			for _, op := range insts {
				sb := &redact.StringBuilder{Buffer: *n.sb.Buffer.VerifClone()}
				runWriterOp(&sbTarget{b: sb}, len(n.path), op, 0, nil)
				path := append(append([]*Op(nil), n.path...), op)
				transitions++
				obs := redact.StringBuilder{Buffer: *sb.Buffer.VerifClone()}
				spec := &HistSpec{Ops: path}
				nt, cl := histClasses(path)
				if err := checkPrefix("StringBuilder (BFS)", path, []byte(obs.RedactableString())); err != nil {
					enumFail(t, "C09Hist", spec, err)
				}
				key := sbKey(sb)
				if seen[key] {
					col.CaseFP("C09Hist(enum)", fingerprint([]byte(key))+uint64(transitions), false, nil, "transition-to-known-state")
					continue
				}
				seen[key] = true
				states++
				// retained path: full cross-implementation check
				res := checks["C09Hist"].runSafely(spec)
				col.CaseFP("C09Hist(enum)", fingerprint([]byte(key)), nt, func() interface{} { return spec }, cl...)
				if res.Err != nil {
					enumFail(t, "C09Hist", spec, res.Err)
				}
				if depth < bound {
					next = append(next, &bfsNode{path: path, sb: sb})
				}
			}
		}
		frontier = next
	}
	col.Exhaustive("C09Hist(enum)", fmt.Sprintf("all sequences of <= %d ops over %d op instances, breadth-first with exact buffer-state de-duplication: %d distinct states, %d transitions", bound, len(insts), states, transitions))
}

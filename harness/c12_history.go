package verifharness

// C12 — a print call's result depends only on its own arguments.

import (
	"bytes"
	"fmt"
	"io"
	"runtime"
	"runtime/debug"
	"sync"
	"sync/atomic"

	"github.com/cockroachdb/redact"
)

// C12Spec: a history of calls, then the probe battery.
type C12Spec struct {
	History []*FmtCase `json:"history"`
	Probes  []int      `json:"probes"` // probe run right after history call i (index into the battery), -1 none
}

// C12Conc: per-goroutine call lists run concurrently.
type C12Conc struct {
	Lists  [][]*FmtCase `json:"lists"`
	Yields [][]int      `json:"yields"` // per goroutine, per call: number of Gosched calls before it
	Shared bool         `json:"shared"` // all goroutines use the same operand objects (read-only)
}

func init() {
	register("C12Hist", "C12", func() interface{} { return &C12Spec{} }, func(s interface{}) Result { return checkC12Hist(s.(*C12Spec)) })
	register("C12Conc", "C12", func() interface{} { return &C12Conc{} }, func(s interface{}) Result { return checkC12Conc(s.(*C12Conc)) })
}

// ---- probe battery -----------------------------------------------------------

type probeResult struct {
	out      []byte
	err      error
	panicked bool
}

type probeCall struct {
	name string
	run  func() probeResult
}

var probeErr = ErrV{S: "probe-error"}

func mkProbe(name, route, format string, args ...interface{}) probeCall {
	return probeCall{name: name, run: func() probeResult {
		r := callRedact(route, format, args)
		return probeResult{out: r.out, err: r.err, panicked: r.panicked}
	}}
}

var probeBattery = []probeCall{
	mkProbe("plain", "Sprintf", "a %d b %s c", 42, "x"),
	mkProbe("sprint", "Sprint", "", "u", 1, 2, SVStr("s")),
	mkProbe("width", "Sprintf", "%08.3f|%-6s|%+d|%x", 3.14159, "ab", 7, "hi"),
	mkProbe("errorf-w", "HelperForErrorf", "wrap: %w", probeErr),
	mkProbe("errorf-now", "HelperForErrorf", "no wrap: %v", probeErr),
	mkProbe("safe", "Sprintf", "%v %v", redact.Safe("safe"), "unsafe"),
	mkProbe("unsafe", "Sprintf", "%v %v", redact.Unsafe(redact.SafeString("x")), redact.SafeString("y")),
	mkProbe("badverb", "Sprintf", "%z %!", 1),
	mkProbe("missing", "Sprintf", "%d %d", 1),
	mkProbe("struct", "Sprintf", "%+v", StructA{X: "x", Y: "y", N: 3}),
	mkProbe("fprintf", "Fprintf", "%s=%v", "k", []interface{}{1, "a"}),
	mkProbe("sbprintf", "SBPrintf", "%d%%", 50),
	// more operands than directives, and a directive that re-orders them
	mkProbe("extra", "Sprintf", "%d", 1, "x"),
	mkProbe("reordered", "Sprintf", "%[2]d %[1]s", "x", 2),
	// a type whose only formatting method is GoString: used under %#v, not
	// under the plain verbs, in this order and then in the other
	mkProbe("gostring", "Sprintf", "%#v %v %s", GoStringerV{S: "G"}, GoStringerV{S: "G"}, GoStringerV{S: "G"}),
	mkProbe("gostring-plain-first", "Sprintf", "%v %#v", GoStringerV{S: "G"}, GoStringerV{S: "G"}),
	{name: "sprintfn", run: func() probeResult {
		return probeResult{out: []byte(redact.Sprintfn(func(w redact.SafePrinter) {
			w.SafeString("s")
			w.UnsafeString("u\nv")
			w.Printf("%d", 5)
			w.SafeInt(3)
		}))}
	}},
	{name: "safeformatter", run: func() probeResult {
		sf := newSafeFmtV([]*Op{{K: "SafeString", S: B("a")}, {K: "Print", Args: []*Val{{K: "str", S: B("b")}}}, {K: "UnsafeRune", I: '‹'}}, 0)
		return probeResult{out: []byte(redact.Sprintf("[%v]", sf))}
	}},
	{name: "nested-caught-panic", run: func() probeResult {
		// a panicking Stringer printed by a nested printer (SafePrinter.Print)
		sf := newSafeFmtV([]*Op{{K: "SafeString", S: B("a")},
			{K: "Print", Args: []*Val{{K: "str", S: B("u")}, {K: "stringer!", S: B("x"), Sub: []*Val{{K: "str", S: B("boom")}}}}},
			{K: "Printf", S: B("%d|%s"), Args: []*Val{{K: "int", I: 7}, {K: "SafeString", S: B("s")}}},
			{K: "SafeString", S: B("z")}}, 0)
		return probeResult{out: []byte(redact.Sprintf("[%v]", sf))}
	}},
	{name: "deep-nesting", run: func() probeResult {
		// four printers checked out at once: reaches printers deeper in the pool
		leaf := []*Op{{K: "SafeString", S: B("L")}, {K: "UnsafeString", S: B("u")},
			{K: "Print", Args: []*Val{{K: "stringer!", S: B("x"), Sub: []*Val{{K: "str", S: B("p")}}}, {K: "int", I: 1}}}}
		l3 := []*Op{{K: "Printf", S: B("3<%v %s>"), Args: []*Val{{K: "safefmt", Ops: leaf}, {K: "str", S: B("t")}}}}
		l2 := []*Op{{K: "Print", Args: []*Val{{K: "safefmt", Ops: l3}, {K: "SafeInt", I: 2}}}}
		l1 := []*Op{{K: "Printf", S: B("1<%v|%v>"), Args: []*Val{{K: "safefmt", Ops: l2}, {K: "str", S: B("w")}}}}
		return probeResult{out: []byte(redact.Sprintf("%v %s", newSafeFmtV(l1, 0), "end"))}
	}},
	// formatters that read everything their State reports, numbers included
	// (whether or not the "present" flag is set)
	mkProbe("formatter-state-sprintf", "Sprintf", "%v|%s", rawStateFmt{}, rawStateFmt{}),
	mkProbe("formatter-state-sprint", "Sprint", "", rawStateFmt{}, 1),
	{name: "safeformatter-state", run: func() probeResult {
		return probeResult{out: []byte(redact.Sprint(SafeFmtV{run: func(p redact.SafePrinter, verb rune) { p.SafeString(redact.SafeString(rawState(p, verb))) }}))}
	}},
	{name: "caught-panic", run: func() probeResult {
		return probeResult{out: []byte(redact.Sprintf("%v|%d", StringerV{S: "x", pan: func() interface{} { return "boom" }}, 1))}
	}},
}

var (
	probeRefs     []probeResult
	probeRefsOnce sync.Once
)

// references: every probe on a newly allocated printer (what a fresh
// process gives), verified through the pool counter.
func probeReferences() []probeResult {
	probeRefsOnce.Do(func() {
		for _, p := range probeBattery {
			redact.VerifDrainPool()
			probeRefs = append(probeRefs, p.run())
		}
	})
	return probeRefs
}

func sameProbe(a, b probeResult) bool {
	return bytes.Equal(a.out, b.out) && a.panicked == b.panicked && sameError(a.err, b.err)
}

func (r probeResult) String() string {
	return fmt.Sprintf("(%s, err=%v, panicked=%v)", q(r.out), r.err, r.panicked)
}

// abnormal: what kind of abnormal call a history case is.
func abnormalClasses(c *FmtCase) []string {
	var cl []string
	f := c.Format()
	st := statsOfCase(c)
	if st.programs {
		cl = append(cl, "user-program")
	}
	if st.oddVerb || c.HasRaw {
		cl = append(cl, "bad-verbs")
	}
	if c.Route == "HelperForErrorf" && bytes.Contains([]byte(f), []byte("w")) {
		cl = append(cl, "errorf-%w")
	}
	for _, a := range c.Args {
		if containsPanicker(a) {
			cl = append(cl, "panicking-method")
		}
		if valHasNestedPanic(a) {
			cl = append(cl, "nested-panic")
		}
		if hasKind(a, map[string]bool{"safe": true, "unsafe": true}) {
			cl = append(cl, "override")
		}
	}
	return cl
}

func checkC12Hist(s *C12Spec) Result {
	var res Result
	refs := probeReferences()
	prevProcs := runtime.GOMAXPROCS(1)
	prevGC := debug.SetGCPercent(-1)
	defer func() {
		debug.SetGCPercent(prevGC)
		runtime.GOMAXPROCS(prevProcs)
	}()
	redact.VerifDrainPool()
	recycledProbes, abnormal := 0, 0
	classes := map[string]bool{}
	doProbe := func(i int, after string) error {
		before := redact.VerifPoolNews()
		insp, _ := redact.VerifPoolInspect()
		got := probeBattery[i].run()
		recycled := redact.VerifPoolNews() == before
		if recycled {
			recycledProbes++
		}
		if !sameProbe(got, refs[i]) {
			return fmt.Errorf("probe %q %s gives %v; on a fresh printer it gives %v (recycled printer: %v; pooled printer before the probe: %s)",
				probeBattery[i].name, after, got, refs[i], recycled, insp)
		}
		return nil
	}
	for i, c := range s.History {
		cl := abnormalClasses(c)
		if len(cl) > 0 {
			abnormal++
		}
		for _, x := range cl {
			classes[x] = true
		}
		r := runCase(c, 0)
		if r.panicked {
			classes["panic-propagated"] = true
		}
		if len(r.out) > 64<<10 {
			classes["large-output"] = true
		}
		if i < len(s.Probes) && s.Probes[i] >= 0 {
			if err := doProbe(s.Probes[i]%len(probeBattery), fmt.Sprintf("right after history call %d (%s %s)", i, c.Route, qs(c.Format()))); err != nil {
				res.Err = err
				return res
			}
		}
	}
	for i := range probeBattery {
		if err := doProbe(i, fmt.Sprintf("after the history of %d calls", len(s.History))); err != nil {
			res.Err = err
			return res
		}
	}
	for k := range classes {
		res.Classes = append(res.Classes, k)
	}
	res.NonTrivial = abnormal > 0 && recycledProbes > 0
	if recycledProbes > 0 {
		res.Classes = append(res.Classes, "probes-on-recycled-printers")
	}
	return res
}

// ---- concurrency -----------------------------------------------------------------

type concResult struct {
	out      []byte
	err      error
	panicked bool
}

func runList(list []*FmtCase, args [][]interface{}, yields []int, phase *int32, overlapped *int32) []concResult {
	out := make([]concResult, len(list))
	for i, c := range list {
		if i < len(yields) {
			for k := 0; k < yields[i]; k++ {
				runtime.Gosched()
			}
		}
		if phase != nil {
			if atomic.AddInt32(phase, 1) > 1 {
				atomic.StoreInt32(overlapped, 1)
			}
		}
		r := callRedact(c.Route, c.Format(), args[i])
		if phase != nil {
			atomic.AddInt32(phase, -1)
		}
		out[i] = concResult{out: r.out, err: r.err, panicked: r.panicked}
	}
	return out
}

func checkC12Conc(s *C12Conc) Result {
	var res Result
	resetConfig()
	n := len(s.Lists)
	// operands: per goroutine, or one shared set (read-only use)
	args := make([][][]interface{}, n)
	build := func(list []*FmtCase) [][]interface{} {
		a := make([][]interface{}, len(list))
		for i, c := range list {
			guard(func() { a[i] = BuildAll(c.Args, 0) })
		}
		return a
	}
	for g := range s.Lists {
		if s.Shared && g > 0 {
			args[g] = args[0]
		} else {
			args[g] = build(s.Lists[g])
		}
	}
	lists := s.Lists
	if s.Shared {
		lists = make([][]*FmtCase, n)
		for g := range lists {
			lists[g] = s.Lists[0]
		}
	}
	var phase, overlapped int32
	got := make([][]concResult, n)
	var wg sync.WaitGroup
	start := make(chan struct{})
	for g := range lists {
		wg.Add(1)
		go func(g int) {
			defer wg.Done()
			<-start
			var y []int
			if g < len(s.Yields) {
				y = s.Yields[g]
			}
			got[g] = runList(lists[g], args[g], y, &phase, &overlapped)
		}(g)
	}
	close(start)
	wg.Wait()
	// single-threaded references, taken afterwards: whatever the library
	// initialises on first use (per-type caches...) is first used by the
	// concurrent calls
	refs := make([][]concResult, n)
	for g := range lists {
		refs[g] = runList(lists[g], args[g], nil, nil, nil)
	}
	res.NonTrivial = n >= 2 && overlapped == 1
	res.Classes = append(res.Classes, fmt.Sprintf("goroutines:%d", n))
	if s.Shared {
		res.Classes = append(res.Classes, "shared-operands")
	}
	if overlapped == 1 {
		res.Classes = append(res.Classes, "calls-overlapped")
	}
	for g := range lists {
		for i := range lists[g] {
			a, b := got[g][i], refs[g][i]
			if a.panicked != b.panicked || !bytes.Equal(a.out, b.out) || !sameError(a.err, b.err) {
				// pointers print the same address in both runs: same objects
				res.Err = fmt.Errorf("goroutine %d call %d (%s %s): concurrently %s (err %v, panicked %v), alone %s (err %v, panicked %v)",
					g, i, lists[g][i].Route, qs(lists[g][i].Format()), q(a.out), a.err, a.panicked, q(b.out), b.err, b.panicked)
				return res
			}
		}
	}
	return res
}

// rawStateFmt prints what its fmt.State reports, including the width and
// precision numbers when they are reported as absent.
type rawStateFmt struct{}

func (rawStateFmt) Format(st fmt.State, verb rune) { io.WriteString(st, rawState(st, verb)) }

func rawState(st fmt.State, verb rune) string {
	w, wok := st.Width()
	p, pok := st.Precision()
	s := fmt.Sprintf("[w=%d,%v p=%d,%v ", w, wok, p, pok)
	for _, c := range "+-# 0" {
		if st.Flag(int(c)) {
			s += string(c)
		}
	}
	return s + "%" + string(verb) + "]"
}

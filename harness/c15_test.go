package verifharness

import (
	"testing"

	"pgregory.net/rapid"
)

// genC15: structured formats with 0-3 %w at any position.
func genC15(rt *rapid.T) *FmtCase {
	c := &FmtCase{Route: "HelperForErrorf"}
	fc := &fmtConfig{noW: true, noTp: false, noZeroMinus: true, noHugeNumbers: true}
	vc := &valConfig{maxDepth: 1, noRedactable: true}
	if rapid.Bool().Draw(rt, "fmtcompat") {
		vc.fmtCompat = true
	}
	n := rapid.IntRange(0, 4).Draw(rt, "ndirs")
	if rapid.IntRange(0, 199).Draw(rt, "manyw") == 77 {
		n = []int{255, 256, 257, 258, 300, 513}[rapid.IntRange(0, 5).Draw(rt, "nmany")] // a very long format
	}
	missing := false
	many := n > 100
	var repeatOperand *Val
	for i := 0; i < n; i++ {
		if rapid.IntRange(0, 2).Draw(rt, "haslit") > 0 {
			c.Segs = append(c.Segs, Seg{Lit: fc.genLit(rt)})
		}
		d := fc.genDirective(rt)
		isW := rapid.IntRange(0, 9).Draw(rt, "isw") < 5 || many
		if isW {
			d.Verb = B("w")
		}
		if d.Width == "*" {
			d.Flags = stringsReplaceAll(d.Flags, "0", "")
		}
		c.Segs = append(c.Segs, Seg{Dir: d})
		if d.Width == "*" {
			c.Args = append(c.Args, genStarOperand(rt))
		}
		if d.Prec == ".*" {
			c.Args = append(c.Args, genStarOperand(rt))
		}
		if string(d.Verb) == "%" {
			continue
		}
		if rapid.IntRange(0, 11).Draw(rt, "missing") == 0 && i == n-1 {
			missing = true
			continue
		}
		if isW && many && i > 0 && repeatOperand != nil {
			// (a very long format is usually repetitive: the same kind of operand
			// at every later %w)
			c.Args = append(c.Args, repeatOperand)
		} else if isW {
			op := genWOperand(rt, vc)
			c.Args = append(c.Args, op)
			if many && i == 1 && rapid.Bool().Draw(rt, "repeat") {
				repeatOperand = op
			}
		} else {
			c.Args = append(c.Args, vc.genVal(rt, 0, false))
		}
	}
	if rapid.IntRange(0, 2).Draw(rt, "taillit") > 0 {
		c.Segs = append(c.Segs, Seg{Lit: fc.genLit(rt)})
	}
	if !missing && rapid.IntRange(0, 19).Draw(rt, "extra") == 0 {
		c.Args = append(c.Args, vc.genVal(rt, 0, false))
	}
	if !vc.fmtCompat && rapid.IntRange(0, 4).Draw(rt, "hook") == 0 {
		c.HasHook = true
		c.Hook = genHookScript(rt, vc)
	}
	return c
}

// genWOperand: what may sit at a %w position.
func genWOperand(rt *rapid.T, vc *valConfig) *Val {
	errKinds := []string{"err", "perr", "stderr", "serr", "ierr", "errstringer", "nilerr", "errwrap", "errwrapv"}
	if !vc.fmtCompat {
		errKinds = append(errKinds, "errsafefmt", "errsafemsg")
	}
	mk := func() *Val {
		k := errKinds[rapid.IntRange(0, len(errKinds)-1).Draw(rt, "ek")]
		switch k {
		case "ierr":
			return vc.leafI(rt, k, false)
		case "nilerr":
			return &Val{K: k}
		case "errwrap", "errwrapv":
			// (errwrapv: a value type with a slice field - not comparable)
			v := vc.leafS(rt, k, false, false)
			v.Sub = []*Val{vc.leafS(rt, "stderr", false, false)}
			return v
		case "errsafefmt":
			v := vc.leafS(rt, k, false, false)
			v.Ops = vc.genSafeFormatScript(rt, 1, false)
			return v
		}
		return vc.leafS(rt, k, false, false)
	}
	switch rapid.IntRange(0, 12).Draw(rt, "wk") {
	case 12:
		// operands that are rendered without method dispatch and without a
		// bad-verb report: empty byte slices, the invalid reflect.Value, and
		// (outside the fmt-compatible universe) redactables, also wrapped
		ks := []string{"bytes", "nbytes", "rvzero"}
		if !vc.fmtCompat {
			ks = append(ks, "rs", "rb", "rs", "saferv")
		}
		switch k := pick(rt, "quietk", ks); k {
		case "bytes", "nbytes":
			return &Val{K: k}
		case "rvzero":
			return &Val{K: k}
		case "saferv":
			return &Val{K: "safe", Sub: []*Val{{K: "rs", Pr: &PrintS{Args: []*Val{vc.leafS(rt, "str", false, false)}}}}}
		default:
			return &Val{K: k, Pr: &PrintS{Args: []*Val{vc.leafS(rt, "str", false, false)}}}
		}
	// (a reflect.Value holding an error is not drawn: the library returns the
	// held error, fmt.Errorf wraps nothing; the statement's first and last
	// sentence disagree about it, see DESIGN §7)
	case 0:
		return &Val{K: "nil"}
	case 1:
		return vc.leafS(rt, "str", false, false) // basic kind: bypasses method dispatch
	case 2:
		return vc.leafI(rt, "int", false)
	case 3:
		return vc.leafS(rt, "stringer", false, false) // non-error via dispatch
	case 4:
		v := vc.leafS(rt, "structA", false, false)
		v.Sub = []*Val{{K: "int", I: 1}, {K: "nil"}}
		return v
	case 5:
		if !vc.fmtCompat {
			return &Val{K: "safe", Sub: []*Val{mk()}}
		}
	case 6:
		if !vc.fmtCompat {
			return &Val{K: "unsafe", Sub: []*Val{mk()}}
		}
	case 7:
		if !vc.fmtCompat {
			// two or three wrappers around the error (the printer strips them
			// all; whatever decides beforehand must do the same)
			v := mk()
			for i, n := 0, rapid.IntRange(2, 3).Draw(rt, "nwrap"); i < n; i++ {
				v = &Val{K: pick(rt, "wrapk", []string{"safe", "unsafe"}), Sub: []*Val{v}}
			}
			return v
		}
	}
	return mk()
}

func TestC15Errorf(t *testing.T) {
	rapidCheck(t, "C15Errorf", func(rt *rapid.T) interface{} { return genC15(rt) })
}

package verifharness

// types.go: the Go types of the value universe (DESIGN §3.3) — named
// basic kinds, method-bearing "programs" whose behaviour is given by
// content or by a script, SafeValue-marked and registrable types,
// containers.

import (
	"fmt"
	"io"
	"runtime"
	"strconv"

	"github.com/cockroachdb/redact"
)

// ---- named basic kinds -------------------------------------------------

type NStr string
type NInt int
type NUint8 uint8
type NUint uint
type NBytes []byte
type NFloat float64
type NBool bool

// named basic kinds with methods: atomic under every directive
type StrStringer string

func (s StrStringer) String() string { return "S<" + string(s) + ">" }

type IntStringer int

func (i IntStringer) String() string { return "I" + strconv.Itoa(int(i)) }

type StrErr string

func (s StrErr) Error() string { return "E<" + string(s) + ">" }

type IntErr int

func (i IntErr) Error() string { return "errno=" + strconv.Itoa(int(i)) }

type StrGoStringer string

func (s StrGoStringer) GoString() string { return "G<" + string(s) + ">" }

// ---- struct programs ---------------------------------------------------

// panicSpec: if non-nil the method panics with the payload it returns.
// (A closure: printed by reflection it shows a code address that is the
// same for every value, never a heap address.)
type panicSpec func() interface{}

type StringerV struct {
	S   string
	pan panicSpec
}

func (s StringerV) String() string {
	if s.pan != nil {
		panic(s.pan())
	}
	return s.S
}

type StringerP struct {
	S   string
	pan panicSpec
}

func (s *StringerP) String() string {
	if s.pan != nil { // nil receiver: nil-pointer dereference, as in user code
		panic(s.pan())
	}
	return s.S
}

type ErrV struct {
	S   string
	pan panicSpec
}

func (e ErrV) Error() string {
	if e.pan != nil {
		panic(e.pan())
	}
	return e.S
}

type ErrP struct {
	S   string
	pan panicSpec
}

func (e *ErrP) Error() string {
	if e.pan != nil {
		panic(e.pan())
	}
	return e.S
}

// wrapping error
type ErrWrap struct {
	Msg   string
	Cause error
}

func (e *ErrWrap) Error() string {
	if e.Cause == nil {
		return e.Msg
	}
	return e.Msg + ": " + e.Cause.Error()
}
func (e *ErrWrap) Unwrap() error { return e.Cause }

// ErrWrapV: a wrapping error of value type that is not comparable (slice field)
type ErrWrapV struct {
	Msg   string
	Cause error
	tags  []string
}

func (e ErrWrapV) Error() string {
	if e.Cause == nil {
		return e.Msg
	}
	return e.Msg + ": " + safeErrorText(e.Cause)
}
func (e ErrWrapV) Unwrap() error { return e.Cause }

// error that is also a Stringer (Error wins in fmt)
type ErrStringer struct{ S string }

func (e ErrStringer) Error() string  { return "err:" + e.S }
func (e ErrStringer) String() string { return "str:" + e.S }

type GoStringerV struct {
	S   string
	pan panicSpec
}

func (g GoStringerV) GoString() string {
	if g.pan != nil {
		panic(g.pan())
	}
	return g.S
}

// both GoStringer and Stringer
type GoStrStringer struct{ S string }

func (g GoStrStringer) GoString() string { return "go:" + g.S }
func (g GoStrStringer) String() string   { return "st:" + g.S }

// FormatterV runs a script against its fmt.State.
// (scripts are held as closures: printed by reflection a func shows its
// code address, which is the same for every script, so script contents
// and operand addresses never leak into an output)
type FormatterV struct {
	run func(st fmt.State, verb rune)
}

func (f *FormatterV) Format(st fmt.State, verb rune) { f.run(st, verb) }

// ErrFormatter: error + Formatter (Formatter wins in fmt)
type ErrFormatter struct {
	S   string
	run func(st fmt.State, verb rune)
}

func (e *ErrFormatter) Error() string                  { return e.S }
func (e *ErrFormatter) Format(st fmt.State, verb rune) { e.run(st, verb) }

// ---- SafeValue-marked types -------------------------------------------

type SVStr string

func (SVStr) SafeValue() {}

type SVInt int

func (SVInt) SafeValue() {}

type SVFloat float64

func (SVFloat) SafeValue() {}

type SVStringer struct{ S string }

func (SVStringer) SafeValue()       {}
func (s SVStringer) String() string { return s.S }

type SVStrStringer string

func (SVStrStringer) SafeValue()       {}
func (s SVStrStringer) String() string { return "SV<" + string(s) + ">" }

type SVErr struct{ S string }

func (SVErr) SafeValue()      {}
func (e SVErr) Error() string { return e.S }

type SVStruct struct {
	A string
	B int
}

func (SVStruct) SafeValue() {}

// SafeValue-marked slice and map types (nil values print as "(nil)" in Go syntax)
type SVSlice []string

func (SVSlice) SafeValue() {}

type SVMap map[string]int

func (SVMap) SafeValue() {}

// ---- registrable pool (RegisterSafeType configurations) ---------------

type RegStr string
type RegInt int
type RegStruct struct {
	A string
	B int
}
type RegStringer string
type RegSlice []int

func (r RegStringer) String() string { return "R<" + string(r) + ">" }

// ---- redact-specific programs -----------------------------------------

type SafeFmtV struct {
	run func(p redact.SafePrinter, verb rune)
}

func (s SafeFmtV) SafeFormat(p redact.SafePrinter, verb rune) { s.run(p, verb) }

// SVSafeFmtV: a SafeFormatter whose type is also marked SafeValue.
type SVSafeFmtV struct {
	run func(p redact.SafePrinter, verb rune)
}

func (s SVSafeFmtV) SafeFormat(p redact.SafePrinter, verb rune) { s.run(p, verb) }
func (SVSafeFmtV) SafeValue()                                   {}

type SafeFmtP struct {
	run func(p redact.SafePrinter, verb rune)
}

func (s *SafeFmtP) SafeFormat(p redact.SafePrinter, verb rune) { s.run(p, verb) }

// error that is also a SafeFormatter
type ErrSafeFmt struct {
	S   string
	run func(p redact.SafePrinter, verb rune)
}

func (e *ErrSafeFmt) Error() string                              { return e.S }
func (e *ErrSafeFmt) SafeFormat(p redact.SafePrinter, verb rune) { e.run(p, verb) }

type SafeMsgV struct {
	S   string
	pan panicSpec
}

func (s SafeMsgV) SafeMessage() string {
	if s.pan != nil {
		panic(s.pan())
	}
	return s.S
}

// error that is also a SafeMessager
type ErrSafeMsg struct{ S string }

func (e ErrSafeMsg) Error() string       { return "error:" + e.S }
func (e ErrSafeMsg) SafeMessage() string { return "safemsg:" + e.S }

// ---- containers ---------------------------------------------------------

type StructA struct {
	X interface{}
	Y string
	z interface{}
	N int
}

// HiddenSV: a typed map with SafeValue keys behind an unexported field.
type HiddenSV struct {
	ID     int
	labels map[redact.SafeString]string
}

type StructB struct {
	E error
	B []byte
	R redact.RedactableString
	s string
	r redact.RedactableString
}

type StructC struct {
	St fmt.Stringer
	M  map[string]interface{}
	P  *int
}

// TagStruct: an unnamed struct type whose tags contain marker characters, so
// that its type name (printed by %T, %#v and in bad-verb reports) does too.
type TagStruct = struct {
	A int    "›k‹"
	B string "‹"
}

// RtPanicStringer panics with a Go runtime error whose message carries data
// derived from the value ("index out of range [4711] with length 3").
type RtPanicStringer struct{ Idx int }

func (r RtPanicStringer) String() string {
	var a [3]int
	i := r.Idx
	if i < 3 {
		i = 3
	}
	return strconv.Itoa(a[i])
}

// StructBlank has blank fields (fmt labels them "_:" under %+v and %#v).
type StructBlank struct {
	A int
	_ int
	B string
	_ string
}

// StructD: byte arrays and named byte slices in exported and unexported
// fields (reached by reflection without the right to Interface()).
type StructD struct {
	Name string
	raw  [4]byte
	Raw  [3]byte
	nb   NBytes
	ns   [2]NStr
}

// named byte-kinded types with methods: a slice or array of them is not a
// byte string, each element goes through its method
type ByteErr uint8

func (b ByteErr) Error() string { return "BE" + strconv.Itoa(int(b)) }

type ByteStringer uint8

func (b ByteStringer) String() string { return "BS" + strconv.Itoa(int(b)) }

// named slice / func types with methods that fail on the nil value (a nil
// receiver that is not a pointer: fmt reports the panic, not <nil>)
type SliceErr []string

func (s SliceErr) Error() string { return "se:" + s[0] }

type FuncStringer func() string

func (f FuncStringer) String() string { return "fs:" + f() }

// StructKey: a comparable struct with an interface-typed field, as a map key
type StructKey struct {
	A interface{}
	B int
}

// StructSV: a SafeValue with a formatting method directly followed by an
// unexported (not interfaceable) field holding unsafe data
type StructSV struct {
	Node   SVStringer
	secret string
	ID     SVStrStringer
	n      int
}

// ErrGoStr: an error that is also a GoStringer
type ErrGoStr struct{ S string }

func (e ErrGoStr) Error() string    { return "EG<" + e.S + ">" }
func (e ErrGoStr) GoString() string { return "go:EG<" + e.S + ">" }

// Setting happens to have a method named like the accessor of the
// library's wrappers; it is an ordinary value all the same.
type Setting struct {
	Name string
	V    int
}

func (s Setting) GetValue() interface{} { return s.V }

type SettingP struct {
	Name string
	V    int
}

func (s *SettingP) GetValue() interface{} { return s.V }

// StructM: maps with interface-typed keys behind an unexported field
type StructM struct {
	m map[interface{}]int
	M map[interface{}]string
}

var mupA, mupB, mupC int

// SafeMsg2: a SafeMessager whose message is one thing and whose fields are
// another (the fields are not declared safe)
type SafeMsg2 struct {
	Msg    string
	secret string
	Secret string
}

func (s SafeMsg2) SafeMessage() string { return s.Msg }

// BigRec is larger than 128 bytes and has a formatting method on its
// pointer type only: a BigRec value (an element of a []BigRec, say) is
// printed field by field.
type BigRec struct {
	A [20]int64
	S string
}

func (b *BigRec) String() string { return "BIG<" + b.S + ">" }

// YieldStringer gives up the processor inside its method, so that calls on
// other goroutines run while this one is in the middle of a print.
type YieldStringer struct {
	S string
	N int
}

func (y YieldStringer) String() string {
	for i := 0; i < y.N; i++ {
		runtime.Gosched()
	}
	return y.S
}

// unnamed struct types with promoted methods
type EmbSafe = struct {
	redact.SafeString
	N int
}
type EmbStringer = struct {
	StrStringer
	N int
}

// ---- writers ------------------------------------------------------------

// recWriter records every Write call and answers according to mode.
type recWriter struct {
	mode  int // 0 ok, 1 fail, 2 short
	calls [][]byte
	err   error
}

var errWriterFailed = fmt.Errorf("writer failed")

// richWriter: an io.Writer that has the optional methods of bytes.Buffer and
// bufio.Writer as well (what a wrapper embedding one of them and overriding
// Write looks like). They succeed, and record that they were used.
type richWriter struct {
	*recWriter
	others []string
}

func (w *richWriter) WriteString(s string) (int, error) {
	w.others = append(w.others, "WriteString")
	return len(s), nil
}
func (w *richWriter) WriteByte(c byte) error { w.others = append(w.others, "WriteByte"); return nil }
func (w *richWriter) WriteRune(r rune) (int, error) {
	w.others = append(w.others, "WriteRune")
	return 1, nil
}
func (w *richWriter) ReadFrom(r io.Reader) (int64, error) {
	w.others = append(w.others, "ReadFrom")
	b, err := io.ReadAll(r)
	return int64(len(b)), err
}

func (w *recWriter) Write(p []byte) (int, error) {
	w.calls = append(w.calls, append([]byte(nil), p...))
	switch w.mode {
	case 1:
		return 0, errWriterFailed
	case 2:
		return len(p) / 2, io.ErrShortWrite
	case 3:
		// (outside the io.Writer contract, but what fmt.Fprint hands back too)
		return len(p) / 2, nil
	}
	return len(p), nil
}

package verifharness

import (
	"testing"

	"pgregory.net/rapid"
)

var c04Routes = []string{"Sprint", "Sprintf", "Sprintf", "Sprintf", "Fprint", "Fprintf"}

func genC04(rt *rapid.T) *FmtCase {
	fc := &fmtConfig{noW: true, noZeroMinus: true}
	vc := &valConfig{fmtCompat: true, maxDepth: 2}
	c := genFmtCase(rt, fc, vc, c04Routes, 30)
	fixZeroStar(c)
	for _, k := range regKindsAll {
		if rapid.IntRange(0, 3).Draw(rt, "reg") == 0 {
			c.Reg = append(c.Reg, k)
		}
	}
	return c
}

// fixZeroStar: a negative '*' width sets the '-' flag; together with '0'
// this is the combination whose fmt semantics changed across releases.
// Drop '0' from structured directives with a star width, and make the
// integer operands of chaotic formats with both '0' and '*' non-negative.
func fixZeroStar(c *FmtCase) {
	for _, s := range c.Segs {
		if s.Dir != nil && s.Dir.Width == "*" {
			s.Dir.Flags = stringsReplaceAll(s.Dir.Flags, "0", "")
		}
	}
	if c.HasRaw && bytesContains(c.Raw, '*') && bytesContains(c.Raw, '0') {
		for _, a := range c.Args {
			if a.K == "int" && a.I < 0 {
				a.I = -a.I
			}
		}
	}
}

func TestC04Diff(t *testing.T) {
	rapidCheck(t, "C04Diff", func(rt *rapid.T) interface{} { return genC04(rt) })
}

package verifharness

import (
	"testing"

	"pgregory.net/rapid"
)

var c04Routes = []string{"Sprint", "Sprintf", "Sprintf", "Sprintf", "Fprint", "Fprintf"}

func genC04(rt *rapid.T) *FmtCase {
	fc := &fmtConfig{noW: true, noZeroMinus: true}
	vc := &valConfig{fmtCompat: true, maxDepth: 2}
	c := genFmtCase(rt, fc, vc, c04Routes, 30)
	fixZeroStar(c)
	for _, k := range regKindsAll {
		if rapid.IntRange(0, 3).Draw(rt, "reg") == 0 {
			c.Reg = append(c.Reg, k)
		}
	}
	return c
}

// fixZeroStar: a negative '*' width sets the '-' flag; together with '0'
// this is the combination whose fmt semantics changed across releases.
// Drop '0' from structured directives with a star width, and make the
// integer operands of chaotic formats with both '0' and '*' non-negative.
func fixZeroStar(c *FmtCase) {
	for _, s := range c.Segs {
		if s.Dir != nil && s.Dir.Width == "*" {
			s.Dir.Flags = stringsReplaceAll(s.Dir.Flags, "0", "")
		}
	}
	if c.HasRaw && bytesContains(c.Raw, '*') && bytesContains(c.Raw, '0') {
		for _, a := range c.Args {
			if a.K == "int" && a.I < 0 {
				a.I = -a.I
			}
		}
	}
}

func TestC04Diff(t *testing.T) {
	rapidCheck(t, "C04Diff", func(rt *rapid.T) interface{} { return genC04(rt) })
}

// TestC04Num focuses the same differential on the formatting of numeric
// leaves (scratch-buffer arithmetic in the integer, rune and float
// renderers): every numeric verb x flags x widths and precisions up to a
// few hundred x operands at the edges of the code-point and integer ranges.
var c04NumInts = []int64{0, 1, -1, 7, 10, 65, 127, 128, 255, 0xe9, 0x2039, 0x203a, 0x4e16, 0xD7FF, 0xD800, 0xDFFF, 0xE000, 0xFFFD, 0xFFFF, 0x10000, 0x1F600, 0x1F9FF,
	0x10FFFF, 0x110000, 1 << 31, -(1 << 31), 1<<63 - 1, -1 << 63, 1234567890123456789,
	// beyond 32 bits with a low half that is a printable code point; Unicode class edges
	1<<32 + 'A', 1<<32 + 0x203a, 1<<40 + 'a', -(1 << 32) + 'A', 1<<31 + 'A', 1<<32 + 0x1F600,
	0xA0, 0xAD, 0x7F, 0x85, 0x1680, 0x2000, 0x200B, 0x2028, 0x202F, 0x3000, 0xFEFF, 0x0378}
var c04NumWP = []string{"", "", "", "0", "1", "2", "5", "8", "20", "59", "60", "61", "64", "65", "100", "127", "128", "129", "300", "1000"}

func TestC04Num(t *testing.T) {
	rapidCheck(t, "C04Diff", func(rt *rapid.T) interface{} {
		c := &FmtCase{Route: "Sprintf"}
		n := rapid.IntRange(1, 2).Draw(rt, "n")
		for i := 0; i < n; i++ {
			d := &Directive{}
			for _, f := range "+-# 0" {
				if rapid.IntRange(0, 3).Draw(rt, "flag") == 0 {
					d.Flags += string(f)
				}
			}
			if stringsContains(d.Flags, "0") && stringsContains(d.Flags, "-") {
				d.Flags = stringsReplaceAll(d.Flags, "0", "")
			}
			d.Width = c04NumWP[rapid.IntRange(0, len(c04NumWP)-1).Draw(rt, "w")]
			if d.Width == "0" {
				d.Width = ""
			}
			if p := c04NumWP[rapid.IntRange(0, len(c04NumWP)-1).Draw(rt, "p")]; p != "" {
				d.Prec = "." + p
			}
			verbs := "dboOxXcqUeEfFgGvtdxUq"
			d.Verb = B(string(verbs[rapid.IntRange(0, len(verbs)-1).Draw(rt, "verb")]))
			c.Segs = append(c.Segs, Seg{Dir: d}, Seg{Lit: B("|")})
			var v *Val
			switch rapid.IntRange(0, 9).Draw(rt, "kind") {
			case 0, 1, 2, 3:
				v = &Val{K: pick(rt, "ik", []string{"int", "int64", "int32", "uint", "uint64", "uint32", "nint", "uint8", "int8", "uintptr"}),
					I: c04NumInts[rapid.IntRange(0, len(c04NumInts)-1).Draw(rt, "iv")]}
			case 4, 5, 6:
				v = &Val{K: pick(rt, "fk", []string{"f64", "f32", "nfloat", "c128", "c64"}),
					F: pick(rt, "fv", append([]string{"1e300", "1e-300", "123456789.123456789", "0.000001", "1e100", "-1e-100", "9007199254740993"}, floatPool...)),
					I: int64(rapid.IntRange(-3, 3).Draw(rt, "im"))}
			case 7:
				v = &Val{K: "bool", I: int64(rapid.IntRange(0, 1).Draw(rt, "b"))}
			case 8:
				v = &Val{K: "intslice", Sub: []*Val{{K: "int", I: c04NumInts[rapid.IntRange(0, len(c04NumInts)-1).Draw(rt, "iv2")]}, {K: "int", I: 0x1F600}}}
			default:
				v = &Val{K: pick(rt, "sk", []string{"str", "bytes"}), S: genText(rt, "s", 3)}
			}
			c.Args = append(c.Args, v)
		}
		return c
	})
}

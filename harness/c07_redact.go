package verifharness

// C07 — Redact and StripMarkers are exact, idempotent projections.

import (
	"bytes"
	"fmt"

	"github.com/cockroachdb/redact"
)

// RStr is a candidate redactable string (possibly ill-formed).
type RStr struct {
	S  B `json:"s"`
	S2 B `json:"s2,omitempty"` // second operand for the concatenation law
	// Scale > 0: S is embedded between Scale bytes of well-formed filler
	// lines on each side (size-dependent code paths)
	Scale int `json:"scale,omitempty"`
}

func init() {
	register("C07Laws", "C07", func() interface{} { return &RStr{} }, func(s interface{}) Result { return checkC07(s.(*RStr)) })
}

func countMarkers(s []byte) (n int) {
	for i := 0; i < len(s); {
		if markerAt(s, i) != 0 {
			n++
			i += 3
		} else {
			i++
		}
	}
	return n
}

// c07Laws checks the single-string laws; returns classes.
func c07Laws(s []byte) (classes []string, err error) {
	rs := redact.RedactableString(s)
	rb := redact.RedactableBytes(append([]byte(nil), s...))
	red := []byte(rs.Redact())
	str := []byte(rs.StripMarkers())
	redB := []byte(rb.Redact())
	strB := rb.StripMarkers()
	if !bytes.Equal([]byte(rb), s) {
		return nil, fmt.Errorf("RedactableBytes(%s).Redact/StripMarkers modified the receiver: %s", q(s), q(rb))
	}
	if !bytes.Equal(red, redB) {
		return nil, fmt.Errorf("Redact: string variant %s, bytes variant %s on %s", q(red), q(redB), q(s))
	}
	if !bytes.Equal(str, strB) {
		return nil, fmt.Errorf("StripMarkers: string variant %s, bytes variant %s on %s", q(str), q(strB), q(s))
	}
	if tb := rs.ToBytes(); !bytes.Equal([]byte(tb), s) || string(tb.ToString()) != string(s) {
		return nil, fmt.Errorf("ToBytes/ToString do not round-trip %s", q(s))
	}
	if ts := rb.ToString(); string(ts) != string(s) {
		return nil, fmt.Errorf("ToString changed %s into %s", q(s), q([]byte(ts)))
	}
	// arbitrary strings
	if hasMarker(str) {
		return []string{"strip-leaves-marker"}, fmt.Errorf("StripMarkers(%s) = %s still contains a marker", q(s), q(str))
	}
	if red2 := []byte(redact.RedactableString(red).Redact()); !bytes.Equal(red2, red) {
		return nil, fmt.Errorf("Redact not idempotent on %s: %s then %s", q(s), q(red), q(red2))
	}
	if str2 := redact.RedactableString(str).StripMarkers(); str2 != string(str) {
		return nil, fmt.Errorf("StripMarkers not idempotent on %s: %s then %s", q(s), q(str), qs(str2))
	}
	if !WF(s) {
		return []string{"ill-formed"}, nil
	}
	classes = []string{"well-formed"}
	want := refRedact(s)
	if !bytes.Equal(red, want) {
		return classes, fmt.Errorf("Redact(%s) = %s, want %s", q(s), q(red), q(want))
	}
	if !WF(red) {
		return classes, fmt.Errorf("Redact(%s) = %s is not well-formed", q(s), q(red))
	}
	if !bytes.Equal(delEnv(red), delEnv(s)) {
		return classes, fmt.Errorf("Redact(%s) = %s changed the safe text", q(s), q(red))
	}
	if len(envs(red)) != len(envs(s)) {
		return classes, fmt.Errorf("Redact(%s) = %s changed the number of envelopes", q(s), q(red))
	}
	for _, e := range envs(red) {
		if string(e) != "×" {
			return classes, fmt.Errorf("Redact(%s) = %s: envelope content %s survives", q(s), q(red), q(e))
		}
	}
	if ws := strip(s); hasMarker(ws) {
		// Invalid UTF-8: deleting exactly the delimiters splices partial
		// bytes into a new marker, so "removes exactly the delimiters" and
		// "leaves no marker" cannot both hold; the latter was checked above.
		classes = append(classes, "strip-would-reassemble")
	} else if !bytes.Equal(str, ws) {
		return classes, fmt.Errorf("StripMarkers(%s) = %s, want %s", q(s), q(str), q(ws))
	}
	return classes, nil
}

// scribble over the slices the marker accessors hand out: a caller owns
// them, the library's own markers must not change
func scribbleMarkerAccessors() {
	for _, m := range [][]byte{redact.StartMarker(), redact.EndMarker(), redact.RedactedMarker()} {
		for i := range m {
			m[i] = '?'
		}
	}
}

// scaled embeds s between n bytes of safe, well-formed filler lines.
func scaled(s []byte, n int) []byte {
	if n <= 0 {
		return s
	}
	line := []byte("filler line of safe text " + startS + "u" + endS + " 0123456789\n")
	var pad []byte
	for len(pad) < n {
		pad = append(pad, line...)
	}
	out := append(append([]byte(nil), pad...), s...)
	return append(out, pad...)
}

func checkC07(r *RStr) Result {
	scribbleMarkerAccessors()
	s := scaled([]byte(r.S), r.Scale)
	res := Result{NonTrivial: hasMarker(s)}
	cl, err := c07Laws(s)
	res.Classes = cl
	if err != nil {
		res.Err = err
		return res
	}
	if r.S2 != nil {
		s2 := []byte(r.S2)
		cat := append(append([]byte(nil), s...), s2...)
		if WF(s) && WF(s2) && countMarkers(cat) == countMarkers(s)+countMarkers(s2) {
			res.Classes = append(res.Classes, "concat")
			a := string(redact.RedactableString(s).Redact()) + string(redact.RedactableString(s2).Redact())
			b := string(redact.RedactableString(cat).Redact())
			if a != b {
				res.Err = fmt.Errorf("Redact(%s + %s) = %s but Redact+Redact = %s", q(s), q(s2), qs(b), qs(a))
				return res
			}
			a = redact.RedactableString(s).StripMarkers() + redact.RedactableString(s2).StripMarkers()
			b = redact.RedactableString(cat).StripMarkers()
			// (where deleting the delimiters would splice partial bytes into a
			// new marker the law has no meaning: see c07Laws)
			if a != b && !hasMarker(strip(cat)) && !hasMarker([]byte(a)) {
				res.Err = fmt.Errorf("StripMarkers(%s + %s) = %s but Strip+Strip = %s", q(s), q(s2), qs(b), qs(a))
				return res
			}
		}
	}
	return res
}

package verifharness

import (
	"strconv"
	"sync"
	"sync/atomic"
)

func itoa(n int) string { return strconv.Itoa(n) }

// enumStrings calls f for every string over alpha of length 0..bound,
// shortest first within each worker, using up to workers goroutines.
// f returns false to stop the enumeration early.
func enumStrings(alpha []byte, bound, workers int, f func([]byte) bool) {
	var stop int32
	if !f(nil) {
		return
	}
	if bound == 0 {
		return
	}
	// tasks: all prefixes of length min(2,bound); each worker enumerates
	// all extensions of its prefix.
	pl := 2
	if bound < 2 {
		pl = bound
	}
	var prefixes [][]byte
	var rec func(cur []byte)
	rec = func(cur []byte) {
		if len(cur) > 0 && len(cur) < pl {
			// shorter than prefix length: evaluated here, not by workers
			if atomic.LoadInt32(&stop) == 0 && !f(append([]byte(nil), cur...)) {
				atomic.StoreInt32(&stop, 1)
			}
		}
		if len(cur) == pl {
			prefixes = append(prefixes, append([]byte(nil), cur...))
			return
		}
		for _, c := range alpha {
			rec(append(cur, c))
		}
	}
	rec(nil)
	ch := make(chan []byte, len(prefixes))
	for _, p := range prefixes {
		ch <- p
	}
	close(ch)
	var wg sync.WaitGroup
	for w := 0; w < workers; w++ {
		wg.Add(1)
		go func() {
			defer wg.Done()
			for p := range ch {
				// iterative deepening so that short strings come first
				for l := len(p); l <= bound; l++ {
					if atomic.LoadInt32(&stop) != 0 {
						return
					}
					buf := make([]byte, l)
					copy(buf, p)
					var ext func(i int) bool
					ext = func(i int) bool {
						if i == l {
							return f(buf)
						}
						for _, c := range alpha {
							buf[i] = c
							if !ext(i + 1) {
								return false
							}
						}
						return true
					}
					if !ext(len(p)) {
						atomic.StoreInt32(&stop, 1)
						return
					}
				}
			}
		}()
	}
	wg.Wait()
}

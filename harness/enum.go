package verifharness

import (
	"strconv"
	"sync"
	"sync/atomic"
)

func itoa(n int) string { return strconv.Itoa(n) }

// enumStrings calls f for every string over alpha of length 0..bound,
// level by level (all strings of length l before any of length l+1), each
// level spread over up to workers goroutines. f returns false to stop:
// the current level is abandoned and no further level is started, so a
// reported failure has minimal length.
func enumStrings(alpha []byte, bound, workers int, f func([]byte) bool) {
	var stop int32
	for l := 0; l <= bound && atomic.LoadInt32(&stop) == 0; l++ {
		pl := 2
		if l < pl {
			pl = l
		}
		var prefixes [][]byte
		var rec func(cur []byte)
		rec = func(cur []byte) {
			if len(cur) == pl {
				prefixes = append(prefixes, append([]byte(nil), cur...))
				return
			}
			for _, c := range alpha {
				rec(append(cur, c))
			}
		}
		rec(nil)
		ch := make(chan []byte, len(prefixes))
		for _, p := range prefixes {
			ch <- p
		}
		close(ch)
		var wg sync.WaitGroup
		for w := 0; w < workers; w++ {
			wg.Add(1)
			go func() {
				defer wg.Done()
				for p := range ch {
					if atomic.LoadInt32(&stop) != 0 {
						return
					}
					buf := make([]byte, l)
					copy(buf, p)
					var ext func(i int) bool
					ext = func(i int) bool {
						if i == l {
							return f(buf)
						}
						for _, c := range alpha {
							buf[i] = c
							if !ext(i + 1) {
								return false
							}
						}
						return true
					}
					if !ext(len(p)) {
						atomic.StoreInt32(&stop, 1)
						return
					}
				}
			}()
		}
		wg.Wait()
	}
}

package verifharness

// C01 — every produced string is a well-formed redactable string.
// C03 — no envelope spans a line break (same cases, stronger predicate
// plus the line-wise laws).

import (
	"bytes"
	"fmt"
	"strings"

	"github.com/cockroachdb/redact"
)

func init() {
	register("C01Fmt", "C01", func() interface{} { return &FmtCase{} }, func(s interface{}) Result { return checkFmtWF(s.(*FmtCase), false) })
	register("C03Fmt", "C03", func() interface{} { return &FmtCase{} }, func(s interface{}) Result { return checkFmtWF(s.(*FmtCase), true) })
	register("C01Hist", "C01", func() interface{} { return &HistCtx{} }, func(s interface{}) Result { return checkHistWF(s.(*HistCtx), false) })
	register("C03Hist", "C03", func() interface{} { return &HistCtx{} }, func(s interface{}) Result { return checkHistWF(s.(*HistCtx), true) })
	register("C01Join", "C01", func() interface{} { return &JoinSpec{} }, func(s interface{}) Result { return checkJoinWF(s.(*JoinSpec), false) })
	register("C03Join", "C03", func() interface{} { return &JoinSpec{} }, func(s interface{}) Result { return checkJoinWF(s.(*JoinSpec), true) })
}

// lineLaws: C03's observation — every line is well-formed and redacting /
// stripping line by line equals doing it on the whole.
func lineLaws(out []byte) error {
	if !LS(out) {
		return fmt.Errorf("output %s is not line-safe (a line feed lies inside an envelope, or markers are unbalanced)", q(out))
	}
	lines := strings.Split(string(out), "\n")
	red := make([]string, len(lines))
	str := make([]string, len(lines))
	redB := make([]string, len(lines))
	strB := make([]string, len(lines))
	for i, l := range lines {
		if !WF([]byte(l)) {
			return fmt.Errorf("line %d %s of output %s is not well-formed", i, qs(l), q(out))
		}
		red[i] = string(redact.RedactableString(l).Redact())
		str[i] = redact.RedactableString(l).StripMarkers()
		redB[i] = string(redact.RedactableBytes(l).Redact())
		strB[i] = string(redact.RedactableBytes(l).StripMarkers())
	}
	whole := redact.RedactableString(out)
	if got, want := strings.Join(red, "\n"), string(whole.Redact()); got != want {
		return fmt.Errorf("redacting line by line gives %s, redacting the whole gives %s (output %s)", qs(got), qs(want), q(out))
	}
	if got, want := strings.Join(str, "\n"), whole.StripMarkers(); got != want {
		return fmt.Errorf("stripping line by line gives %s, stripping the whole gives %s (output %s)", qs(got), qs(want), q(out))
	}
	if got, want := strings.Join(redB, "\n"), string(redact.RedactableBytes(out).Redact()); got != want {
		return fmt.Errorf("bytes variant: redacting line by line gives %s, the whole gives %s", qs(got), qs(want))
	}
	if got, want := strings.Join(strB, "\n"), string(redact.RedactableBytes(out).StripMarkers()); got != want {
		return fmt.Errorf("bytes variant: stripping line by line gives %s, the whole gives %s", qs(got), qs(want))
	}
	return nil
}

func judgeOutput(out []byte, lineSafe bool) error {
	if lineSafe {
		return lineLaws(out)
	}
	if !WF(out) {
		return fmt.Errorf("output %s is not well-formed (markers do not strictly alternate start/end)", q(out))
	}
	return nil
}

// ---- classification helpers -------------------------------------------------

type specStats struct {
	markerish       bool // some payload / literal contains a marker or partial-marker byte
	lfInUnsafe      bool // some potentially-unsafe payload contains a line feed
	lfFirst, lfLast bool
	markerAtEdge    bool
	inPanic         bool
	inKey           bool
	inLiteral       bool
	oddVerb         bool
	programs        bool
	formats         []string // every nested format string
}

func (st *specStats) payload(b []byte, where string) {
	if hasMarkerish(b) {
		st.markerish = true
		if len(b) >= 1 && (b[0] == 0xE2 || markerAt(b, len(b)-3) != 0 || b[len(b)-1] == 0xE2 || b[len(b)-1] == 0x80) {
			st.markerAtEdge = true
		}
		switch where {
		case "panic":
			st.inPanic = true
		case "key":
			st.inKey = true
		case "lit":
			st.inLiteral = true
		}
	}
	if where != "lit" && where != "safe" && bytes.IndexByte(b, '\n') >= 0 {
		st.lfInUnsafe = true
		if b[0] == '\n' {
			st.lfFirst = true
		}
		if b[len(b)-1] == '\n' {
			st.lfLast = true
		}
	}
}

func (st *specStats) val(v *Val, where string) {
	if v == nil {
		return
	}
	w := where
	switch v.K {
	case "SafeString", "svstr", "svstringer", "svsstringer", "sverr", "svstruct", "safemsg", "errsafemsg":
		if w == "" {
			w = "safe"
		}
	}
	if strings.HasSuffix(v.K, "!") {
		for _, s := range v.Sub {
			st.val(s, "panic")
		}
		st.payload(v.S, w)
		return
	}
	st.payload(v.S, w)
	for _, k := range v.Keys {
		st.val(k, "key")
	}
	sw := where
	if v.K == "safe" {
		sw = "safe"
	}
	for _, s := range v.Sub {
		st.val(s, sw)
	}
	if len(v.Ops) > 0 {
		st.programs = true
		st.ops(v.Ops, where)
	}
	if v.Pr != nil {
		if v.Pr.HasFmt {
			st.formats = append(st.formats, string(v.Pr.Fmt))
			st.payload(v.Pr.Fmt, "lit")
		}
		for _, a := range v.Pr.Args {
			st.val(a, where)
		}
	}
}

func (st *specStats) ops(ops []*Op, where string) {
	for _, op := range ops {
		w := where
		switch op.K {
		case "SafeString", "SafeBytes":
			w = "safe"
		case "Printf", "Fprintf", "RFprintf":
			st.formats = append(st.formats, string(op.S))
			w = "lit"
		case "Panic":
			for _, a := range op.Args {
				st.val(a, "panic")
			}
			continue
		}
		st.payload(op.S, w)
		for _, a := range op.Args {
			st.val(a, where)
		}
		st.ops(op.Ops, where)
	}
}

func statsOfCase(c *FmtCase) *specStats {
	st := &specStats{}
	if c.HasRaw {
		st.payload(c.Raw, "lit")
		st.formats = append(st.formats, string(c.Raw))
	}
	for _, s := range c.Segs {
		if s.Dir != nil {
			if len(s.Dir.Verb) != 1 || !strings.ContainsRune(asciiVerbs, rune(s.Dir.Verb[0])) {
				st.oddVerb = true
			}
			if hasMarkerish(s.Dir.Verb) {
				st.markerish = true
			}
			st.formats = append(st.formats, s.Dir.String())
		} else {
			st.payload(s.Lit, "lit")
		}
	}
	for _, a := range c.Args {
		st.val(a, "")
	}
	if c.HasHook {
		st.programs = true
		st.ops(c.Hook, "")
	}
	return st
}

func (st *specStats) classes() []string {
	var cl []string
	add := func(b bool, s string) {
		if b {
			cl = append(cl, s)
		}
	}
	add(st.markerish, "marker-bytes-in-data")
	add(st.markerAtEdge, "marker-at-payload-edge")
	add(st.inPanic, "marker-in-panic-message")
	add(st.inKey, "marker-in-map-key")
	add(st.inLiteral, "marker-in-format-literal")
	add(st.oddVerb, "odd-verb")
	add(st.programs, "user-program")
	add(st.lfInUnsafe, "LF-in-unsafe-data")
	add(st.lfFirst, "LF-first")
	add(st.lfLast, "LF-last")
	return cl
}

// ---- escape invariance ---------------------------------------------------------

// escapable: the interpretive renderings (hex, ASCII-only quoting) are absent
// from every format of the case, so a marker in a string payload and a '?'
// at the same place must give the same output.
func escapable(st *specStats) bool {
	for _, f := range st.formats {
		if strings.ContainsAny(f, "xX+p#") {
			return false
		}
	}
	return true
}

// escapableVerbs: every top-level directive is %v, %s or %q.
func escapableVerbs(c *FmtCase) bool {
	for _, s := range c.Segs {
		if s.Dir == nil {
			continue
		}
		// (an invalid verb reports the operand by reflection, where scripted
		// operands show their payload bytes as numbers)
		if len(s.Dir.Verb) != 1 || strings.IndexByte("vsq", s.Dir.Verb[0]) < 0 {
			return false
		}
	}
	return true
}

var stringKinds = map[string]bool{"str": true, "nstr": true, "stringer": true, "pstringer": true, "err": true, "perr": true, "stderr": true,
	"errwrap": true, "errstringer": true, "gostr": true, "gostrstringer": true, "sstringer": true, "serr": true, "sgostr": true,
	"stringer!": true, "pstringer!": true, "err!": true, "perr!": true, "gostr!": true, "svstr": true, "svstringer": true, "svsstringer": true,
	"sverr": true, "svstruct": true, "regstr": true, "regstruct": true, "regstringer": true, "SafeString": true, "safemsg": true, "safemsg!": true,
	"errsafemsg": true, "errfmter": true, "errsafefmt": true, "pstr": true, "structA": true, "pstructA": true, "structB": true, "pstructB": true}

func escVal(v *Val, f func([]byte) []byte) *Val {
	if v == nil {
		return nil
	}
	c := *v
	if stringKinds[v.K] {
		c.S = f(v.S)
	}
	c.Sub = nil
	for _, s := range v.Sub {
		if v.K == "sslice" {
			e := *s
			e.S = f(s.S)
			c.Sub = append(c.Sub, &e)
		} else {
			c.Sub = append(c.Sub, escVal(s, f))
		}
	}
	// map keys stay as they are: their order depends on their content.
	// StringBuilder operands too: printed by reflection (unexported field,
	// bad verb under Unsafe) their buffer shows as numbers.
	if v.K == "sb" || v.K == "psb" {
		c.Ops = escOps(v.Ops, func(b []byte) []byte { return b })
	} else {
		c.Ops = escOps(v.Ops, f)
	}
	if v.Pr != nil {
		p := *v.Pr
		p.Args = nil
		for _, a := range v.Pr.Args {
			p.Args = append(p.Args, escVal(a, f))
		}
		c.Pr = &p
	}
	return &c
}

func escOps(ops []*Op, f func([]byte) []byte) []*Op {
	var out []*Op
	for _, op := range ops {
		c := *op
		switch op.K {
		case "SafeString", "UnsafeString", "Write", "WriteString", "SafeBytes", "UnsafeBytes", "IOCopy", "StdFprint":
			c.S = f(op.S)
		}
		c.Args = nil
		for _, a := range op.Args {
			c.Args = append(c.Args, escVal(a, f))
		}
		c.Ops = escOps(op.Ops, f)
		out = append(out, &c)
	}
	return out
}

func mapCase(c *FmtCase, f func([]byte) []byte) *FmtCase {
	e := *c
	e.Segs = nil
	for _, s := range c.Segs {
		if s.Dir == nil {
			e.Segs = append(e.Segs, Seg{Lit: f(s.Lit)})
		} else {
			e.Segs = append(e.Segs, s)
		}
	}
	e.Args = nil
	for _, a := range c.Args {
		e.Args = append(e.Args, escVal(a, f))
	}
	e.Hook = escOps(c.Hook, f)
	return &e
}

// ---- C01Fmt / C03Fmt --------------------------------------------------------------

func runCase(c *FmtCase, inst int) (r printResult) {
	applyConfig(c.Reg, c.HasHook, c.Hook)
	defer resetConfig()
	defer func() {
		// building an operand can itself print (library-produced redactables)
		// and a nested panic propagates from there, as in fmt
		if p := recover(); p != nil {
			r = printResult{panicked: true, panicVal: p}
		}
	}()
	return callRedact(c.Route, c.Format(), BuildAll(c.Args, inst))
}

func checkFmtWF(c *FmtCase, lineSafe bool) Result {
	st := statsOfCase(c)
	res := Result{Classes: st.classes()}
	if lineSafe {
		res.NonTrivial = st.lfInUnsafe
	} else {
		res.NonTrivial = st.markerish
	}
	r := runCase(c, 0)
	if r.panicked {
		// whether this panic is legitimate (nested panic, as in fmt) is C11's business
		res.Classes = append(res.Classes, "panicked")
		res.NonTrivial = false
		return res
	}
	if err := judgeOutput(r.out, lineSafe); err != nil {
		res.Err = fmt.Errorf("%s(%s, ...): %v", c.Route, qs(c.Format()), err)
		return res
	}
	if lineSafe && res.NonTrivial {
		// the line feed must actually reach the output from unsafe data
		if bytes.IndexByte(r.out, '\n') < 0 {
			res.NonTrivial = false
		}
	}
	if !lineSafe && !c.HasRaw && st.markerish && escapable(st) && escapableVerbs(c) && !hasPointers(c) {
		// determinism filter: operands are rebuilt for the second run, so
		// anything that prints an address differs anyway
		if r1 := runCase(mapCase(c, func(b []byte) []byte { return b }), 0); r1.panicked || !bytes.Equal(r1.out, r.out) ||
			bytes.Contains(r.out, []byte("verifharness.Op")) || bytes.Contains(r.out, []byte("verifharness.Val")) {
			// (the second clause: a scripted operand was printed by reflection -
			// unexported field, Unsafe() - and shows its script's payload bytes as numbers)
			res.Classes = append(res.Classes, "prints-addresses")
			return res
		}
		res.Classes = append(res.Classes, "escape-invariance-checked")
		r2 := runCase(mapCase(c, esc), 0)
		if r2.panicked || !bytes.Equal(r.out, r2.out) {
			res.Err = fmt.Errorf("%s(%s, ...): output %s, but with every marker in the string payloads and literals replaced by '?' the output is %s (panicked=%v): data influenced the envelope structure",
				c.Route, qs(c.Format()), q(r.out), q(r2.out), r2.panicked)
			return res
		}
	}
	return res
}

// hasPointers: the case prints addresses, which differ between two builds of the operands.
func hasPointers(c *FmtCase) bool {
	hasW := false
	for _, f := range statsOfCase(c).formats {
		if strings.Contains(f, "w") {
			hasW = true
		}
	}
	var has func(v *Val) bool
	hasOps := func(ops []*Op) bool { return false }
	has = func(v *Val) bool {
		if v == nil {
			return false
		}
		switch v.K {
		case "pstr", "pint", "chan", "func", "uptr", "pislice", "pmsi", "pstructA", "pstructB", "structC", "pstringer", "perr", "pstringer!", "perr!",
			"fmter", "errfmter", "psafefmt", "errsafefmt", "psb", "errwrap", "stderr", "stringer!", "err!", "gostr!", "safemsg!":
			return true
		}
		switch v.K {
		case "safefmt", "sb":
			// printed by reflection (script pointers, buffer internals) only on the %w misuse path
			if hasW {
				return true
			}
		}
		for _, s := range v.Sub {
			if has(s) {
				return true
			}
		}
		if hasOps(v.Ops) {
			return true
		}
		if v.Pr != nil {
			for _, a := range v.Pr.Args {
				if has(a) {
					return true
				}
			}
		}
		return false
	}
	hasOps = func(ops []*Op) bool {
		for _, op := range ops {
			for _, a := range op.Args {
				if has(a) {
					return true
				}
			}
			if hasOps(op.Ops) {
				return true
			}
		}
		return false
	}
	for _, a := range c.Args {
		if has(a) {
			return true
		}
	}
	return hasOps(c.Hook)
}

// ---- C01Hist / C03Hist: writer histories in every context ------------------------------

// HistCtx: a writer history run in a context.
type HistCtx struct {
	Ops []*Op      `json:"ops"`
	Ctx string     `json:"ctx"` // SB, SBBytes, MB, Sprintfn, SafeFormat, UnderUnsafe, UnderSafe, InSlice, InStruct, EscapeBytes
	Dir *Directive `json:"dir,omitempty"`
}

func runHistCtx(h *HistCtx) (out []byte, panicked bool) {
	defer func() {
		if r := recover(); r != nil {
			panicked = true
		}
	}()
	dir := "%v"
	if h.Dir != nil {
		dir = h.Dir.String()
	}
	switch h.Ctx {
	case "SB":
		o, _ := runOnSB(h.Ops, 0, nil)
		return o, false
	case "SBBytes":
		var sb redact.StringBuilder
		runWriterOps(&sbTarget{b: &sb}, h.Ops, 0)
		return []byte(sb.RedactableBytes()), false
	case "MB":
		o, _ := runOnMB(h.Ops, 0, nil)
		return o, false
	case "Sprintfn":
		return runOnSprintfn(h.Ops), false
	case "SafeFormat":
		return []byte(redact.Sprintf("pre "+dir+" post", newSafeFmtV(h.Ops, 0))), false
	case "UnderUnsafe":
		return []byte(redact.Sprintf("pre "+dir+" post", redact.Unsafe(newSafeFmtV(h.Ops, 0)))), false
	case "UnderSafe":
		return []byte(redact.Sprintf("pre "+dir+" post", redact.Safe(newSafeFmtV(h.Ops, 0)))), false
	case "InSlice":
		return []byte(redact.Sprintf(dir, []interface{}{"u", newSafeFmtV(h.Ops, 0), 3})), false
	case "InStruct":
		return []byte(redact.Sprintf(dir, StructA{X: newSafeFmtP(h.Ops, 0), Y: "y", z: newSafeFmtV(h.Ops, 0)})), false
	case "PrintSB":
		var sb redact.StringBuilder
		runWriterOps(&sbTarget{b: &sb}, h.Ops, 0)
		return []byte(redact.Sprintf("pre "+dir+" post", &sb)), false
	case "EscapeBytes":
		var all []byte
		for _, op := range h.Ops {
			all = append(all, op.S...)
		}
		return []byte(redact.EscapeBytes(all)), false
	}
	panic("HARNESS: unknown context " + h.Ctx)
}

var histContexts = []string{"SB", "SBHeld", "SBBytes", "MB", "Sprintfn", "SafeFormat", "SafeFormat", "UnderUnsafe", "UnderSafe", "InSlice", "InStruct", "PrintSB", "EscapeBytes"}

func checkHistWF(h *HistCtx, lineSafe bool) Result {
	st := &specStats{}
	st.ops(h.Ops, "")
	res := Result{Classes: append(st.classes(), "ctx:"+h.Ctx)}
	if lineSafe {
		res.NonTrivial = st.lfInUnsafe
	} else {
		res.NonTrivial = st.markerish
	}
	if h.Ctx == "SBHeld" {
		// results read in the middle of the history, judged after it
		var held []redact.RedactableString
		if p, _ := guard(func() {
			runOnSB(h.Ops, 0, func(i int, sb *redact.StringBuilder) error {
				held = append(held, sb.RedactableString())
				return nil
			})
		}); p {
			res.Classes = append(res.Classes, "panicked")
		}
		for i, r := range held {
			if err := judgeOutput([]byte(r), lineSafe); err != nil {
				res.Err = fmt.Errorf("history on a StringBuilder, RedactableString() read after op %d and looked at after op %d: %v", i, len(h.Ops)-1, err)
				return res
			}
		}
		return res
	}
	out, panicked := runHistCtx(h)
	if panicked {
		res.Classes = append(res.Classes, "panicked")
		res.NonTrivial = false
		return res
	}
	if err := judgeOutput(out, lineSafe); err != nil {
		res.Err = fmt.Errorf("history in context %s: %v", h.Ctx, err)
	}
	return res
}

// ---- C01Join ------------------------------------------------------------------------------

// JoinSpec: Join/JoinTo over library-produced redactables.
type JoinSpec struct {
	Delim *PrintS   `json:"delim"`
	Items []*PrintS `json:"items"`
	To    string    `json:"to"` // Join, JoinToSB, JoinToPrinter
	// Lines: the items are cut at their line feeds and every line is joined
	// as an item of its own (each line of an output is a redactable string,
	// C03; it may end or start inside a character). NoDelim: joined with "".
	Lines   bool `json:"lines,omitempty"`
	NoDelim bool `json:"noDelim,omitempty"`
}

func runJoin(j *JoinSpec) (out []byte, panicked bool) {
	defer func() {
		if p := recover(); p != nil {
			panicked = true
		}
	}()
	b := &builder{}
	delim := b.print(j.Delim)
	items := make([]redact.RedactableString, len(j.Items))
	for i, it := range j.Items {
		items[i] = b.print(it)
	}
	if j.Lines {
		var lines []redact.RedactableString
		for _, it := range items {
			for _, l := range bytes.Split([]byte(it), []byte("\n")) {
				lines = append(lines, redact.RedactableString(l))
			}
		}
		items = lines
	}
	if j.NoDelim {
		delim = ""
	}
	switch j.To {
	case "JoinToSB":
		var sb redact.StringBuilder
		sb.SafeString("[")
		redact.JoinTo(&sb, delim, items)
		sb.UnsafeString("]")
		return []byte(sb.RedactableString()), false
	case "JoinToPrinter":
		return []byte(redact.Sprintfn(func(w redact.SafePrinter) {
			w.UnsafeString("[")
			redact.JoinTo(w, delim, items)
			w.SafeString("]")
		})), false
	}
	return []byte(redact.Join(delim, items)), false
}

func checkJoinWF(j *JoinSpec, lineSafe bool) Result {
	st := &specStats{}
	for _, it := range append([]*PrintS{j.Delim}, j.Items...) {
		st.val(&Val{K: "rs", Pr: it}, "")
	}
	res := Result{Classes: st.classes()}
	res.NonTrivial = st.markerish && len(j.Items) > 0
	if lineSafe {
		res.NonTrivial = st.lfInUnsafe && len(j.Items) > 0
	}
	out, panicked := runJoin(j)
	if panicked {
		res.Classes = append(res.Classes, "panicked")
		res.NonTrivial = false
		return res
	}
	if err := judgeOutput(out, lineSafe); err != nil {
		res.Err = fmt.Errorf("%s: %v", j.To, err)
	}
	return res
}

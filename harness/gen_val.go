package verifharness

// gen_val.go: rapid generators for the value universe (DESIGN §3.3).

import (
	"unicode/utf8"

	"pgregory.net/rapid"
)

type valConfig struct {
	fmtCompat    bool // only values the standard fmt package knows how to print (C04 domain)
	noPanic      bool // no panicking methods
	noPrograms   bool // no scripted Formatters / SafeFormatters
	bytesAlpha   bool // payloads over the byte alphabet (invalid UTF-8), else text alphabet
	two          bool // draw a second instantiation for unsafe leaves (C02)
	sameLen      bool // with two: rune-for-rune substitution only
	shareInts    bool // with two: integers are shared (may be consumed by '*')
	maxDepth     int
	noReflect    bool
	noWrappers   bool // no Safe()/Unsafe() wrappers
	noRedactable bool // no RedactableString/Bytes/StringBuilder operands
	noPointers   bool // nothing that prints an address
	noSafeFmt    bool // no SafeFormatter / SafeMessager (e.g. inside error-hook tests)
	shareFloats  bool // floats are the same in both instantiations
	noErrors     bool // no error values (operands printed by an error hook: it would be re-entered forever)
	maxTok       int
	reg          map[string]bool // registered kinds (their leaves are public)
}

func (c *valConfig) tok() int {
	if c.maxTok == 0 {
		return 4
	}
	return c.maxTok
}

func (c *valConfig) payload(rt *rapid.T, label string) []byte {
	if c.bytesAlpha {
		return genBytes(rt, label, c.tok())
	}
	return genText(rt, label, c.tok())
}

// substitution alphabet for the second instantiation
var varyRunes = []rune{'a', 'b', 'z', 'Q', '7', ' ', '‹', '›', '×', '?', '%', '"', '\\', 'é', '世', '😀', '\t', '-', '0'}
var vary1 = []rune{'a', 'b', 'z', 'Q', '7', ' ', '?', '%', '"', '\\', '\t', '-', '0'}
var vary2 = []rune{'é', '×', 'ü', 'ß'}
var vary4 = []rune{'😀', '😁', '𝄞'}

// vary derives instantiation B from A: line feeds stay in place; every
// other rune is replaced by a freshly drawn one (of equal encoded length
// if eqBytes); unless sameLen, each maximal non-LF run may change length.
func vary(rt *rapid.T, label string, s []byte, sameLen, eqBytes bool) []byte {
	var out []byte
	i := 0
	for i < len(s) {
		if s[i] == '\n' {
			out = append(out, '\n')
			i++
			continue
		}
		// maximal non-LF run
		j := i
		n := 0
		var lens []int
		for j < len(s) && s[j] != '\n' {
			_, sz := utf8.DecodeRune(s[j:])
			lens = append(lens, sz)
			j += sz
			n++
		}
		m := n
		if !sameLen && !eqBytes {
			m = rapid.IntRange(1, n+3).Draw(rt, label+"_len")
		}
		if n > 64 && eqBytes {
			// long run, byte-length preserving: a fixed class-preserving
			// substitution shifted by one drawn offset (no draw per rune)
			shift := rapid.IntRange(0, 6).Draw(rt, label+"_vshift")
			for k := 0; k < n; k++ {
				switch lens[k] {
				case 1:
					if s[i] >= utf8.RuneSelf {
						out = append(out, s[i])
					} else {
						out = append(out, string(vary1[(shift+k)%len(vary1)])...)
					}
				case 2:
					out = append(out, string(vary2[(shift+k)%len(vary2)])...)
				case 3:
					if markerAt(s, i) != 0 {
						out = append(out, string([]rune{'‹', '›'}[(shift+k)%2])...)
					} else {
						out = append(out, string([]rune{'世', '界', '€'}[(shift+k)%3])...)
					}
				default:
					out = append(out, string(vary4[(shift+k)%len(vary4)])...)
				}
				i += lens[k]
			}
			i = j
			continue
		}
		if n > 64 && !eqBytes {
			// long run: one drawn rune repeated (a draw per rune would
			// dominate the cost of the case)
			r := varyRunes[rapid.IntRange(0, len(varyRunes)-1).Draw(rt, label+"_vlong")]
			for k := 0; k < m; k++ {
				out = append(out, string(r)...)
			}
			i = j
			continue
		}
		for k := 0; k < m; k++ {
			var r rune
			if eqBytes {
				switch lens[k] {
				case 1:
					if s[i] >= utf8.RuneSelf {
						// an invalid byte is shared by both instantiations: a
						// substitute could assemble with its neighbours into a valid
						// rune, which changes the rune count (width, precision)
						out = append(out, s[i])
						i++
						continue
					}
					r = vary1[rapid.IntRange(0, len(vary1)-1).Draw(rt, label+"_v1")]
				case 2:
					r = vary2[rapid.IntRange(0, len(vary2)-1).Draw(rt, label+"_v2")]
				case 3:
					// a marker stays a marker: in a StringBuilder's buffer it is
					// stored escaped (one byte), so it is not interchangeable
					// with other 3-byte runes where byte counts are shape
					if markerAt(s, i) != 0 {
						r = []rune{'‹', '›'}[rapid.IntRange(0, 1).Draw(rt, label+"_v3m")]
					} else {
						r = []rune{'世', '界', '€'}[rapid.IntRange(0, 2).Draw(rt, label+"_v3")]
					}
				default:
					r = vary4[rapid.IntRange(0, len(vary4)-1).Draw(rt, label+"_v4")]
				}
				i += lens[k]
			} else {
				if k < n && lens[k] == 1 && i < len(s) && s[i] >= utf8.RuneSelf {
					// an invalid byte is shared here as well: the library marks a
					// dangling one with a '?' guard, which adds a character to one
					// instantiation only - visible when the text is later cut or
					// padded as a whole (a redactable reached by reflection)
					out = append(out, s[i])
					i += lens[k]
					continue
				}
				if k < n {
					i += lens[k]
				}
				r = varyRunes[rapid.IntRange(0, len(varyRunes)-1).Draw(rt, label+"_v")]
			}
			out = append(out, string(r)...)
		}
		i = j
	}
	return out
}

// leafS makes a string-content leaf; pub = content is public (shared).
func (c *valConfig) leafS(rt *rapid.T, kind string, pub bool, eqBytes bool) *Val {
	v := &Val{K: kind, S: c.payload(rt, "s")}
	if eqBytes && len(v.S) > 1500 {
		// byte slices are printed element by element under most verbs (20+
		// output bytes per element): keep them moderately long
		n := 1500
		for n > 0 && !utf8.RuneStart(v.S[n]) {
			n--
		}
		v.S = v.S[:n]
	}
	if c.two && !pub {
		v.T = vary(rt, "t", v.S, c.sameLen, eqBytes)
		v.HasT = true
	}
	return v
}

func (c *valConfig) leafI(rt *rapid.T, kind string, pub bool) *Val {
	v := &Val{K: kind, I: genInt(rt, "i")}
	if c.two && !pub && !c.shareInts {
		v.J = genInt(rt, "j")
		// same emptiness: with a zero precision the integer 0 renders as
		// nothing, so zero-ness is part of the shape
		// (judged modulo 256: the value may be narrowed to an 8-bit kind)
		if v.I%256 == 0 {
			v.J = v.I
		} else if v.J%256 == 0 {
			v.J = 7
		}
		v.HasT = true
	}
	return v
}

func (c *valConfig) leafF(rt *rapid.T, kind string, pub bool) *Val {
	v := &Val{K: kind, F: genFloatS(rt, "f"), I: int64(rapid.IntRange(-3, 3).Draw(rt, "im"))}
	if c.two && !pub && !c.shareFloats {
		v.G = genFloatS(rt, "g")
		v.J = int64(rapid.IntRange(-3, 3).Draw(rt, "jm"))
		v.HasT = true
	}
	return v
}

var plainStrKinds = []string{"str", "str", "nstr"}
var plainByteKinds = []string{"bytes", "nbytes", "barr"}
var plainIntKinds = []string{"int", "int", "int8", "int16", "int32", "int64", "uint", "uint8", "uint16", "uint32", "uint64", "uintptr", "nint", "dur"}
var plainFloatKinds = []string{"f32", "f64", "f64", "nfloat", "c64", "c128"}
var nilKinds = []string{"nil", "nil", "nilptr", "nilstringer", "nilerr", "nilmap", "nilslice", "nilfunc"}
var ptrKinds = []string{"pstr", "pint", "chan", "func", "uptr"}
var methodStrKinds = []string{"stringer", "pstringer", "err", "perr", "stderr", "errstringer", "gostr", "gostrstringer", "sstringer", "serr", "sgostr"}
var methodIntKinds = []string{"istringer", "ierr"}
var panicKinds = []string{"stringer!", "pstringer!", "err!", "perr!", "gostr!"}
var svStrKinds = []string{"svstr", "svstringer", "svsstringer", "sverr"}
var regStrKinds = []string{"regstr", "regstringer"}

func pick(rt *rapid.T, label string, xs []string) string {
	return xs[rapid.IntRange(0, len(xs)-1).Draw(rt, label)]
}

// pointerKinds can print a heap address (directly, or by reflection under a
// bad verb / as an unexported field).
var pointerKinds = map[string]bool{"pstr": true, "pint": true, "chan": true, "func": true, "uptr": true, "pislice": true, "pmsi": true,
	"pstructA": true, "pstructB": true, "structC": true, "pstringer": true, "perr": true, "stderr": true, "errwrap": true, "fmter": true,
	"errfmter": true, "psafefmt": true, "errsafefmt": true, "psb": true, "pstringer!": true, "perr!": true, "rv": true, "rvfield": true, "rvfieldr": true, "rviface": true, "pregstruct": true, "pregslice": true, "mup": true, "pbigstruct": true}

// pickK picks a kind, avoiding pointer kinds if the configuration says so.
// errorKinds implement error.
var errorKinds = map[string]bool{"err": true, "perr": true, "stderr": true, "serr": true, "ierr": true, "errwrap": true, "errwrapv": true,
	"errstringer": true, "errfmter": true, "sverr": true, "errsafefmt": true, "errsafemsg": true, "err!": true, "perr!": true, "nilerr": true,
	"errslice": true, "structB": true, "pstructB": true, "byteerrslice": true, "sliceerr": true, "nilsliceerr": true, "errgostr": true}

func (c *valConfig) pickK(rt *rapid.T, label string, xs []string) string {
	if c.noErrors {
		var ys []string
		for _, x := range xs {
			if !errorKinds[x] {
				ys = append(ys, x)
			}
		}
		xs = ys
	}
	if c.noPointers {
		var ys []string
		for _, x := range xs {
			if !pointerKinds[x] {
				ys = append(ys, x)
			}
		}
		xs = ys
	}
	return pick(rt, label, xs)
}

// public returns the configuration for a public context (inside Safe()):
// what is printed there is outside envelopes, so nothing may print an
// address (the two instantiations are distinct objects).
// aligned returns the configuration for operands of a nested format
// (which may carry a width): rune-for-rune substitution only.
func (c *valConfig) aligned() *valConfig {
	cc := *c
	cc.sameLen = true
	// (numbers too: the text of a nested print can be padded or cut as a
	// whole by an outer directive - when the redactable is reached by
	// reflection through an unexported field it is a plain string - so the
	// number of digits is shape)
	cc.shareInts = true
	cc.shareFloats = true
	return &cc
}

func (c *valConfig) public() *valConfig {
	cc := *c
	cc.noPointers = true
	return &cc
}

// genVal draws a value spec. pub: the context makes everything public
// (inside Safe()); depth counts container nesting.
func (c *valConfig) genVal(rt *rapid.T, depth int, pub bool) *Val {
	maxD := c.maxDepth
	if maxD == 0 {
		maxD = 3
	}
	// category weights
	type cat struct {
		name string
		w    int
	}
	if rapid.IntRange(0, 29).Draw(rt, "typename") == 17 {
		// a type whose name contains marker characters (struct tags)
		v := c.leafS(rt, pick(rt, "tk", []string{"tagstruct", "tagslice"}), pub, false)
		li := c.leafI(rt, "int", pub)
		v.I, v.J = li.I, li.J
		if v.HasT && !li.HasT {
			v.J = v.I
		}
		return v
	}
	cats := []cat{{"str", 5}, {"bytes", 2}, {"int", 4}, {"float", 2}, {"bool", 1}, {"nil", 1}, {"method", 4}, {"sv", 2}, {"reg", 1}}
	if !c.noPointers {
		cats = append(cats, cat{"ptr", 1})
	}
	if !c.noPanic {
		cats = append(cats, cat{"panic", 2})
	}
	if !c.noPrograms && !c.noPointers {
		cats = append(cats, cat{"fmter", 2})
	}
	if !c.fmtCompat {
		cats = append(cats, cat{"safetypes", 2})
		if !c.noSafeFmt {
			cats = append(cats, cat{"safemsg", 1})
			if !c.noPrograms {
				cats = append(cats, cat{"safefmt", 3})
			}
		}
		if !c.noWrappers {
			cats = append(cats, cat{"wrap", 3})
		}
		if !c.noRedactable {
			cats = append(cats, cat{"redactable", 2})
		}
	}
	if depth < maxD {
		cats = append(cats, cat{"container", 5})
		if !c.noReflect && !c.noPointers {
			cats = append(cats, cat{"rv", 1})
		}
	}
	total := 0
	for _, ct := range cats {
		total += ct.w
	}
	x := rapid.IntRange(0, total-1).Draw(rt, "cat")
	name := ""
	for _, ct := range cats {
		if x < ct.w {
			name = ct.name
			break
		}
		x -= ct.w
	}
	switch name {
	case "str":
		return c.leafS(rt, pick(rt, "k", plainStrKinds), pub, false)
	case "bytes":
		return c.leafS(rt, pick(rt, "k", plainByteKinds), pub, true)
	case "int":
		return c.leafI(rt, pick(rt, "k", plainIntKinds), pub)
	case "float":
		return c.leafF(rt, pick(rt, "k", plainFloatKinds), pub)
	case "bool":
		v := &Val{K: pick(rt, "k", []string{"bool", "nbool"}), I: int64(rapid.IntRange(0, 1).Draw(rt, "b"))}
		if c.two && !pub {
			v.J = int64(rapid.IntRange(0, 1).Draw(rt, "b2"))
			v.HasT = true
		}
		return v
	case "nil":
		return &Val{K: c.pickK(rt, "k", nilKinds)}
	case "ptr":
		k := pick(rt, "k", ptrKinds)
		switch k {
		case "pstr":
			return c.leafS(rt, k, pub, false)
		case "pint":
			return c.leafI(rt, k, pub)
		}
		return &Val{K: k}
	case "method":
		switch rapid.IntRange(0, 19).Draw(rt, "mx") {
		case 3:
			v := c.leafS(rt, "embstringer", pub, false)
			v.I, v.J = 7, 7
			return v
		case 11:
			{
				v := c.leafS(rt, "dynstruct", pub, false)
				v.I = int64(rapid.IntRange(0, 1<<30).Draw(rt, "dynid"))
				v.J = v.I
				if rapid.Bool().Draw(rt, "dynx") {
					v.Sub = []*Val{c.genVal(rt, depth+1, pub)}
				}
				return v
			}
		case 1, 9:
			k := "structsv"
			if rapid.IntRange(0, 2).Draw(rt, "smk") == 0 {
				k = "structm"
			}
			v := c.leafS(rt, k, pub, false)
			li := c.leafI(rt, "int", pub)
			v.I, v.J = li.I, li.J
			if v.HasT && !li.HasT {
				v.J = v.I
			}
			return v
		case 2:
			if !c.noErrors {
				return c.leafS(rt, "errgostr", pub, false)
			}
		case 4:
			if rapid.IntRange(0, 3).Draw(rt, "ngv") == 0 {
				return &Val{K: "nilgetvalue"}
			}
			v := c.leafS(rt, "getvalue", pub, false)
			li := c.leafI(rt, "int", pub)
			v.I, v.J = li.I, li.J
			if v.HasT && !li.HasT {
				v.J = v.I
			}
			return v
		case 6:
			if !c.noPointers {
				return c.leafI(rt, "mup", pub)
			}
		case 10:
			// big addressable elements whose pointer type has a method
			k := "bigslice"
			if depth == 0 && !c.noPointers && rapid.Bool().Draw(rt, "pbig") {
				k = "pbigstruct"
			}
			v := c.leafS(rt, k, pub, false)
			li := c.leafI(rt, "int", pub)
			v.I, v.J = li.I, li.J
			if v.HasT && !li.HasT {
				v.J = v.I
			}
			return v
		case 5:
			v := c.leafS(rt, "structblank", pub, false)
			li := c.leafI(rt, "int", pub)
			v.I, v.J = li.I, li.J
			if v.HasT && !li.HasT {
				v.J = v.I
			}
			return v
		case 8:
			if !c.two {
				return c.leafS(rt, "structd", pub, false)
			}
		case 15:
			// (errors are not offered where error operands are excluded: a hook
			// printing them is re-entered without end)
			if c.noErrors {
				return c.leafI(rt, "bytestrarr", pub)
			}
			return c.leafI(rt, pick(rt, "bek", []string{"byteerrslice", "bytestrarr"}), pub)
		case 17:
			if c.noErrors {
				return c.leafS(rt, "funcstringer", pub, false)
			}
			return c.leafS(rt, pick(rt, "sek", []string{"sliceerr", "funcstringer"}), pub, false)
		case 13:
			if depth == 0 {
				return &Val{K: "deep", I: int64(rapid.IntRange(0, 29).Draw(rt, "deepn")), Sub: []*Val{c.leafS(rt, "str", pub, false)}}
			}
		}
		if rapid.IntRange(0, 4).Draw(rt, "mi") == 0 {
			return c.leafI(rt, c.pickK(rt, "k", methodIntKinds), pub)
		}
		k := c.pickK(rt, "k", methodStrKinds)
		if k == "stderr" && !c.noPointers && rapid.IntRange(0, 2).Draw(rt, "wrap") == 0 {
			inner := c.leafS(rt, "stderr", pub, false)
			v := c.leafS(rt, "errwrap", pub, false)
			v.Sub = []*Val{inner}
			return v
		}
		return c.leafS(rt, k, pub, false)
	case "panic":
		if !c.noErrors && rapid.IntRange(0, 5).Draw(rt, "rtp") == 3 {
			// (the payload is a runtime.Error: an error, seen by the error hook)
			v := c.leafI(rt, "rtpanic", pub)
			// an index that is out of range (>= 3), different but valid in both instantiations
			v.I = 3 + (v.I&0xffff)%5000
			v.J = 3 + (v.J&0xffff)%5000
			return v
		}
		if !c.noErrors && rapid.IntRange(0, 7).Draw(rt, "nilrecv") == 5 {
			// nil receivers that are not pointers: the method's panic is reported
			return &Val{K: pick(rt, "nrk", []string{"nilsliceerr", "nilfuncstringer"})}
		}
		k := c.pickK(rt, "k", panicKinds)
		v := c.leafS(rt, k, pub, false)
		v.Sub = []*Val{c.genPanicPayload(rt, depth, pub)}
		return v
	case "sv":
		// (not where %p may apply: the address of a safe slice or map is public)
		if !c.noWrappers && !(c.two && c.noPointers) && rapid.IntRange(0, 5).Draw(rt, "svc") == 0 {
			// SafeValue-marked / registrable slice and map types, nil half of the time
			switch rapid.IntRange(0, 3).Draw(rt, "svck") {
			case 0:
				v := c.leafS(rt, "SafeBytes", true, true)
				if rapid.Bool().Draw(rt, "svnil") {
					v.S = nil
				}
				return v
			case 1:
				v := c.leafS(rt, "svslice", true, false)
				if rapid.Bool().Draw(rt, "svnil") {
					v.S = nil
				}
				return v
			case 2:
				return &Val{K: "svmap", I: int64(rapid.IntRange(0, 2).Draw(rt, "svm"))}
			default:
				return &Val{K: "regslice", I: int64(rapid.IntRange(0, 2).Draw(rt, "rsl"))}
			}
		}
		if rapid.IntRange(0, 9).Draw(rt, "embs") == 4 {
			v := c.leafS(rt, "embsafe", true, false)
			v.I = 7
			return v
		}
		if rapid.IntRange(0, 3).Draw(rt, "svk") == 0 {
			if rapid.Bool().Draw(rt, "svf") {
				return c.leafF(rt, "svfloat", true)
			}
			return c.leafI(rt, "svint", true)
		}
		if rapid.IntRange(0, 5).Draw(rt, "svs") == 0 {
			v := c.leafS(rt, "svstruct", true, false)
			v.I = genInt(rt, "svi")
			return v
		}
		return c.leafS(rt, c.pickK(rt, "k", svStrKinds), true, false)
	case "reg":
		if !c.noPointers && depth == 0 && rapid.IntRange(0, 4).Draw(rt, "preg") == 2 {
			// a top-level pointer to a registrable struct / slice
			if rapid.Bool().Draw(rt, "pregk") {
				v := c.leafS(rt, "pregstruct", pub || c.reg["regstruct"], false)
				v.I, v.J = 12, 12
				return v
			}
			return &Val{K: "pregslice", I: 5, J: 5}
		}
		switch rapid.IntRange(0, 3).Draw(rt, "regk") {
		case 0:
			return c.leafI(rt, "regint", pub || c.reg["regint"])
		case 1:
			v := c.leafS(rt, "regstruct", pub || c.reg["regstruct"], false)
			v.I = genInt(rt, "ri")
			if v.HasT {
				v.J = v.I
			}
			return v
		default:
			k := pick(rt, "k", regStrKinds)
			return c.leafS(rt, k, pub || c.reg[k], false)
		}
	case "fmter":
		k := "fmter"
		if !c.noErrors && rapid.IntRange(0, 3).Draw(rt, "ef") == 0 {
			k = "errfmter"
		}
		v := c.leafS(rt, k, pub, false)
		v.Ops = c.genFormatterScript(rt, depth, pub)
		return v
	case "safetypes":
		switch rapid.IntRange(0, 4).Draw(rt, "st") {
		case 0:
			return c.leafS(rt, "SafeString", true, false)
		case 1:
			return c.leafI(rt, "SafeInt", true)
		case 2:
			return c.leafI(rt, "SafeUint", true)
		case 3:
			return c.leafF(rt, "SafeFloat", true)
		default:
			return &Val{K: "SafeRune", I: int64(genRune(rt, "sr", false))}
		}
	case "safemsg":
		k := c.pickK(rt, "k", []string{"safemsg", "safemsg", "errsafemsg"})
		if !c.noPanic && rapid.IntRange(0, 5).Draw(rt, "smp") == 0 {
			v := c.leafS(rt, "safemsg!", true, false)
			v.Sub = []*Val{c.genPanicPayload(rt, depth, pub)}
			return v
		}
		if rapid.IntRange(0, 3).Draw(rt, "sm2") == 0 {
			// the message is safe, the fields are not
			return c.leafS(rt, "safemsg2", pub, false)
		}
		return c.leafS(rt, k, true, false)
	case "safefmt":
		k := c.pickK(rt, "k", []string{"safefmt", "safefmt", "psafefmt", "errsafefmt"})
		v := c.leafS(rt, k, pub, false)
		v.Ops = c.genSafeFormatScript(rt, depth, pub)
		return v
	case "wrap":
		if rapid.Bool().Draw(rt, "safe") {
			return &Val{K: "safe", Sub: []*Val{c.public().genVal(rt, depth+1, true)}}
		}
		return &Val{K: "unsafe", Sub: []*Val{c.genVal(rt, depth+1, pub)}}
	case "redactable":
		rk := rapid.IntRange(0, 3).Draw(rt, "rk")
		if c.two && c.bytesAlpha && rk >= 2 {
			// (a StringBuilder printed by reflection shows its buffer byte by
			// byte; with partial marker bytes the escaped length - the shape -
			// depends on whether neighbouring bytes assemble into a marker)
			rk = 0
		}
		switch rk {
		case 0, 1:
			k := pick(rt, "k", []string{"rs", "rs", "rb"})
			// (a RedactableBytes handed to the standard fmt by a Formatter is a
			// byte slice like any other: one envelope per byte, so its length
			// is shape; its content is shared by both instantiations)
			return &Val{K: k, Pr: c.genPrintSpec(rt, depth+1, pub || (k == "rb" && c.two))}
		default:
			oc := &opConfig{bytesAlpha: c.bytesAlpha, ioSide: true, prints: false, maxTok: 3}
			v := &Val{K: c.pickK(rt, "k", []string{"sb", "psb"}), Ops: genHistory(rt, oc, 5)}
			if c.two && !pub {
				// printed by reflection (bad verb) a StringBuilder shows its
				// buffer like a []byte: one envelope per byte, so the byte
				// length is shape
				c.varyOpsEq(rt, v.Ops, true)
			}
			return v
		}
	case "rv":
		if rapid.IntRange(0, 6).Draw(rt, "rvz") == 0 {
			return &Val{K: "rvzero"}
		}
		if rapid.IntRange(0, 5).Draw(rt, "rvi") == 2 {
			return &Val{K: "rviface", Sub: []*Val{c.genVal(rt, depth+1, pub)}}
		}
		if rapid.IntRange(0, 3).Draw(rt, "rvf") == 0 {
			if !c.fmtCompat && !c.noRedactable && rapid.Bool().Draw(rt, "rvfr") {
				return &Val{K: "rvfieldr", Sub: []*Val{{K: "rs", Pr: c.genPrintSpec(rt, depth+1, pub)}}}
			}
			return &Val{K: "rvfield", Sub: []*Val{c.genVal(rt, depth+1, pub)}}
		}
		return &Val{K: "rv", Sub: []*Val{c.genVal(rt, depth+1, pub)}}
	case "container":
		return c.genContainer(rt, depth, pub)
	}
	return &Val{K: "nil"}
}

func (c *valConfig) genPanicPayload(rt *rapid.T, depth int, pub bool) *Val {
	if c.noErrors {
		// (operands printed by an error hook: a payload that is an error would
		// re-enter the hook, which prints the panicking operand again, forever)
		if rapid.Bool().Draw(rt, "ppne") {
			return c.leafI(rt, "int", pub)
		}
		return c.leafS(rt, "str", pub, false)
	}
	switch rapid.IntRange(0, 8).Draw(rt, "pp") {
	case 6:
		// a typed nil pointer whose method dereferences its receiver: while
		// printing the payload this is reported as <nil>, as in fmt
		return &Val{K: pick(rt, "ppnil", []string{"nilerr", "nilstringer"})}
	case 7:
		return &Val{K: "islice", Sub: []*Val{{K: pick(rt, "ppnil2", []string{"nilerr", "nilstringer"})}, c.leafS(rt, "str", pub, false)}}
	case 8:
		return &Val{K: "errslice", Sub: []*Val{{K: "nilerr"}, c.leafS(rt, "serr", pub, false)}}
	case 0:
		if c.noPointers {
			return c.leafS(rt, "serr", pub, false)
		}
		return c.leafS(rt, "stderr", pub, false)
	case 1:
		if !c.fmtCompat {
			return c.leafS(rt, "SafeString", true, false)
		}
		return c.leafI(rt, "int", pub)
	case 2:
		return c.leafI(rt, "int", pub)
	case 3:
		// a value whose own String panics: nested panic (propagates, as in fmt)
		v := c.leafS(rt, "stringer!", pub, false)
		v.Sub = []*Val{c.leafS(rt, "str", pub, false)}
		return v
	default:
		return c.leafS(rt, "str", pub, false)
	}
}

// varyOps draws the second instantiation for the unsafe payloads of a writer script.
func (c *valConfig) varyOps(rt *rapid.T, ops []*Op) { c.varyOpsEq(rt, ops, false) }

func (c *valConfig) varyOpsEq(rt *rapid.T, ops []*Op, eqBytes bool) {
	for _, op := range ops {
		if eqBytes && op.K != "UnsafeString" && op.K != "UnsafeBytes" && op.K != "Write" && op.K != "WriteString" && op.K != "IOCopy" && op.K != "StdFprint" {
			continue
		}
		switch op.K {
		case "UnsafeString", "UnsafeBytes", "Write", "WriteString", "IOCopy", "StdFprint":
			op.T = vary(rt, "ot", op.S, c.sameLen, eqBytes)
			op.HasT = true
		case "UnsafeRune", "WriteRune":
			if op.I != '\n' {
				op.J = int64(varyRunes[rapid.IntRange(0, len(varyRunes)-1).Draw(rt, "or")])
				op.HasT = true
			}
		case "UnsafeByte", "WriteByte":
			if op.I != '\n' {
				op.J = int64("abz7 ?"[rapid.IntRange(0, 5).Draw(rt, "ob")])
				op.HasT = true
			}
		}
	}
}

// genSafeFormatScript: ops a SafeFormat method issues on its SafePrinter.
func (c *valConfig) genSafeFormatScript(rt *rapid.T, depth int, pub bool) []*Op {
	oc := &opConfig{bytesAlpha: c.bytesAlpha, ioSide: true, prints: true, maxTok: 3,
		args: func(rt *rapid.T, label string) []*Val { return c.aligned().genArgs(rt, depth+1, pub, 2) }}
	n := rapid.IntRange(0, 5).Draw(rt, "nsf")
	ops := make([]*Op, 0, n+1)
	for i := 0; i < n; i++ {
		k := rapid.IntRange(0, 19).Draw(rt, "sfk")
		switch {
		case k == 0:
			ops = append(ops, &Op{K: "State"})
		case k == 1:
			ops = append(ops, &Op{K: "Fwd", Args: []*Val{c.genVal(rt, depth+1, pub)}})
		case k == 2 && !c.noPanic:
			ops = append(ops, &Op{K: "Panic", Args: []*Val{c.genPanicPayload(rt, depth, pub)}})
		case k == 3 && !c.noErrors && !c.noPointers:
			// %w in a nested format: always a bad verb there (only the format
			// of HelperForErrorf itself may wrap)
			ops = append(ops, &Op{K: "Printf", S: B("x %w y"), Args: []*Val{c.leafS(rt, "stderr", pub, false)}})
		case k == 4 && !c.noRedactable && !c.fmtCompat && depth < 3:
			// Print with a single operand that is redactable already (the
			// shape of w.Print(redact.Sprintf(...)))
			ops = append(ops, &Op{K: "Print", Args: []*Val{{K: pick(rt, "prk1", []string{"rs", "rs", "rb"}), Pr: c.genPrintSpec(rt, depth+1, pub)}}})
		default:
			ops = append(ops, genOp(rt, oc))
		}
	}
	if c.two && !pub {
		c.varyOps(rt, ops)
	}
	return ops
}

// genFormatterScript: actions of a Format method on its fmt.State.
func (c *valConfig) genFormatterScript(rt *rapid.T, depth int, pub bool) []*Op {
	n := rapid.IntRange(0, 4).Draw(rt, "nfm")
	var ops []*Op
	for i := 0; i < n; i++ {
		k := rapid.IntRange(0, 11).Draw(rt, "fmk")
		switch {
		case k <= 2:
			op := &Op{K: "Write", S: c.payload(rt, "fw")}
			ops = append(ops, op)
		case k <= 4:
			ops = append(ops, &Op{K: "WriteString", S: c.payload(rt, "fws")})
		case k == 5:
			args := c.aligned().genArgs(rt, depth+1, pub, 2)
			ops = append(ops, &Op{K: "Fprintf", S: genSimpleFormat(rt, "ff", len(args), false), Args: args})
		case k == 6:
			if rapid.Bool().Draw(rt, "rfp") {
				args := c.aligned().genArgs(rt, depth+1, pub, 2)
				ops = append(ops, &Op{K: "RFprintf", S: genSimpleFormat(rt, "rff", len(args), false), Args: args})
			} else if rapid.Bool().Draw(rt, "rfp2") {
				ops = append(ops, &Op{K: "RFprint", Args: c.genArgs(rt, depth+1, pub, 2)})
			} else {
				ops = append(ops, &Op{K: "Fprint", Args: c.genArgs(rt, depth+1, pub, 2)})
			}
		case k == 7:
			ops = append(ops, &Op{K: "State"})
		case k == 8:
			ops = append(ops, &Op{K: "Fwd", Args: []*Val{c.genVal(rt, depth+1, pub)}})
		case k == 9 && !c.noPanic:
			ops = append(ops, &Op{K: "Panic", Args: []*Val{c.genPanicPayload(rt, depth, pub)}})
		case k == 10 && !c.fmtCompat:
			// discovers the SafePrinter behind its fmt.State
			sub := c.genSafeFormatScript(rt, depth+1, pub)
			ops = append(ops, &Op{K: "SP", Ops: sub})
		default:
			ops = append(ops, &Op{K: "Write", S: c.payload(rt, "fw2")})
		}
	}
	if c.two && !pub {
		c.varyOps(rt, ops)
	}
	return ops
}

func (c *valConfig) genArgs(rt *rapid.T, depth int, pub bool, max int) []*Val {
	n := rapid.IntRange(0, max).Draw(rt, "nargs")
	if depth > 3 {
		n = 0
	}
	out := make([]*Val, n)
	for i := range out {
		out[i] = c.genVal(rt, depth, pub)
	}
	return out
}

// genPrintSpec: a nested print call whose result is a library-produced redactable.
func (c *valConfig) genPrintSpec(rt *rapid.T, depth int, pub bool) *PrintS {
	p := &PrintS{}
	if rapid.Bool().Draw(rt, "pf") {
		p.Args = c.aligned().genArgs(rt, depth, pub, 3)
		p.HasFmt = true
		p.Fmt = genSimpleFormat(rt, "prf", len(p.Args), c.bytesAlpha)
	} else {
		p.Args = c.genArgs(rt, depth, pub, 3)
	}
	return p
}

var containerKinds = []string{"islice", "islice", "pislice", "iarr2", "sslice", "intslice", "bslice", "errslice", "strgslice",
	"msi", "msi", "pmsi", "msint", "mis", "mii", "structA", "structA", "pstructA", "structB", "pstructB", "structC"}

func (c *valConfig) genContainer(rt *rapid.T, depth int, pub bool) *Val {
	k := c.pickK(rt, "ck", containerKinds)
	if !c.noPanic && rapid.IntRange(0, 19).Draw(rt, "afterpanic") == 7 {
		// an element whose method panics (caught and reported), followed by
		// siblings whose rendering depends on the directive's flags, width
		// and precision: the rest of the directive goes on as before
		pk := c.pickK(rt, "apk", []string{"stringer!", "err!", "gostr!"})
		pv := c.leafS(rt, pk, pub, false)
		pv.Sub = []*Val{c.leafS(rt, "str", pub, false)}
		sa := &Val{K: "structA", Sub: []*Val{c.leafI(rt, "int", pub), c.leafS(rt, "str", pub, false)}, S: B("y"), I: 3}
		li := c.leafI(rt, "int", pub)
		sb := c.leafS(rt, "structblank", pub, false)
		sb.I, sb.J = li.I, li.J
		if sb.HasT && !li.HasT {
			sb.J = sb.I
		}
		return &Val{K: "islice", Sub: []*Val{c.leafS(rt, "str", pub, false), pv, sa, c.leafF(rt, "f64", pub), sb}}
	}
	if !c.two && rapid.IntRange(0, 24).Draw(rt, "mak") == 13 {
		// keys that are arrays / structs holding interfaces, several of them
		// equal (also nil) in their first component
		v := &Val{K: pick(rt, "makk", []string{"mak", "msk"})}
		n := rapid.IntRange(1, 4).Draw(rt, "makn")
		first := []*Val{{K: "nil"}, {K: "int", I: 1}, {K: "str", S: B("k")}, {K: "bool", I: 1}}
		for i := 0; i < n; i++ {
			k0 := first[rapid.IntRange(0, len(first)-1).Draw(rt, "mak0")]
			var k1 *Val
			if v.K == "msk" || rapid.Bool().Draw(rt, "mak1i") {
				k1 = &Val{K: "int", I: int64(i)}
			} else {
				k1 = &Val{K: "str", S: B(string(rune('a' + i)))}
			}
			v.Keys = append(v.Keys, k0, k1)
			v.Sub = append(v.Sub, c.genVal(rt, depth+1, pub))
		}
		return v
	}
	if !c.two && rapid.IntRange(0, 24).Draw(rt, "mck") == 17 {
		// keys that start with a NaN and differ in what follows
		v := &Val{K: pick(rt, "mckk", []string{"mck", "mnk"})}
		n := rapid.IntRange(2, 4).Draw(rt, "mckn")
		for i := 0; i < n; i++ {
			v.Sub = append(v.Sub, c.genVal(rt, depth+1, pub))
		}
		return v
	}
	if !c.two && rapid.IntRange(0, 24).Draw(rt, "mfi") == 11 {
		// float keys including NaN (several NaN keys are distinct entries)
		v := &Val{K: "mfi"}
		n := rapid.IntRange(1, 4).Draw(rt, "mfn")
		for i := 0; i < n; i++ {
			// (one NaN at most: NaN keys compare equal to each other in the
			// sort, so their order is the map's random iteration order)
			k := "NaN"
			if i > 0 {
				k = pick(rt, "mfk", []string{"1.5", "-2", "+Inf", "0", "-0", "-Inf"})
			}
			v.Keys = append(v.Keys, &Val{K: "f64", F: k})
			v.Sub = append(v.Sub, c.genVal(rt, depth+1, pub))
		}
		return v
	}
	if c.fmtCompat && (k == "structB" || k == "pstructB") {
		k = "structA" // StructB has RedactableString fields (redact-specific rendering)
	}
	v := &Val{K: k}
	n := rapid.IntRange(0, 3).Draw(rt, "cn")
	if rapid.IntRange(0, 24).Draw(rt, "cbig") == 0 {
		n = rapid.IntRange(6, 20).Draw(rt, "cnbig") // many elements
	}
	switch k {
	case "islice", "pislice":
		for i := 0; i < n; i++ {
			v.Sub = append(v.Sub, c.genVal(rt, depth+1, pub))
		}
	case "iarr2":
		v.Sub = []*Val{c.genVal(rt, depth+1, pub), c.genVal(rt, depth+1, pub)}
	case "sslice":
		for i := 0; i < n; i++ {
			v.Sub = append(v.Sub, c.leafS(rt, "str", pub, false))
		}
	case "intslice":
		for i := 0; i < n; i++ {
			v.Sub = append(v.Sub, c.leafI(rt, "int", pub))
		}
	case "bslice":
		for i := 0; i < n; i++ {
			v.Sub = append(v.Sub, c.leafS(rt, "bytes", pub, true))
		}
	case "errslice":
		for i := 0; i < n; i++ {
			if rapid.IntRange(0, 4).Draw(rt, "en") == 0 {
				v.Sub = append(v.Sub, &Val{K: "nil"})
			} else {
				v.Sub = append(v.Sub, c.leafS(rt, c.pickK(rt, "ek", []string{"err", "perr", "stderr", "serr", "errstringer"}), pub, false))
			}
		}
	case "strgslice":
		for i := 0; i < n; i++ {
			v.Sub = append(v.Sub, c.leafS(rt, c.pickK(rt, "sk", []string{"stringer", "pstringer", "sstringer", "errstringer"}), pub, false))
		}
	case "msi", "pmsi":
		c.genStrKeys(rt, v, n, pub)
		for i := 0; i < n; i++ {
			v.Sub = append(v.Sub, c.genVal(rt, depth+1, pub))
		}
	case "msint":
		c.genStrKeys(rt, v, n, pub)
		for i := 0; i < n; i++ {
			v.Sub = append(v.Sub, c.leafI(rt, "int", pub))
		}
	case "mis":
		c.genIntKeys(rt, v, n, pub)
		for i := 0; i < n; i++ {
			v.Sub = append(v.Sub, c.leafS(rt, "str", pub, false))
		}
	case "mii":
		// keys of one kind (string or int) so that the order is well defined by content
		if rapid.Bool().Draw(rt, "miik") {
			c.genStrKeys(rt, v, n, pub)
		} else {
			c.genIntKeys(rt, v, n, pub)
		}
		for i := 0; i < n; i++ {
			v.Sub = append(v.Sub, c.genVal(rt, depth+1, pub))
		}
	case "structA", "pstructA":
		v.Sub = []*Val{c.genVal(rt, depth+1, pub), c.genVal(rt, depth+1, pub)}
		l := c.leafS(rt, "str", pub, false)
		v.S, v.T, v.HasT = l.S, l.T, l.HasT
		li := c.leafI(rt, "int", pub)
		v.I, v.J = li.I, li.J
		if v.HasT && !li.HasT {
			v.J = v.I
		}
		if !v.HasT && li.HasT {
			v.T, v.HasT = v.S, true
		}
	case "structB", "pstructB":
		e := &Val{K: "nil"}
		if rapid.Bool().Draw(rt, "se") {
			e = c.leafS(rt, c.pickK(rt, "ek", []string{"err", "perr", "stderr", "serr"}), pub, false)
		}
		v.Sub = []*Val{e, c.leafS(rt, "bytes", pub, true)}
		if !c.fmtCompat && !c.noRedactable {
			v.Sub = append(v.Sub, &Val{K: "rs", Pr: c.genPrintSpec(rt, depth+1, pub)})
		}
		l := c.leafS(rt, "str", pub, false)
		v.S, v.T, v.HasT = l.S, l.T, l.HasT
	case "structC":
		v.Sub = []*Val{c.leafS(rt, pick(rt, "sk", []string{"stringer", "pstringer", "sstringer", "nil"}), pub, false), c.genVal(rt, depth+1, pub)}
		v.I = int64(rapid.IntRange(0, 2).Draw(rt, "cp"))
	}
	return v
}

// genStrKeys draws n distinct string keys. With two instantiations and
// n >= 2 the keys get a shared, distinct, order-fixing first rune and a
// varying tail, so that the relative key order is the same in A and B.
func (c *valConfig) genStrKeys(rt *rapid.T, v *Val, n int, pub bool) {
	firsts := []string{"a", "b", "c", "d", "e", "f", "g", "h", "i", "j", "k", "l", "m", "n", "o", "p", "q", "r", "s", "t", "u"}
	for i := 0; i < n; i++ {
		tail := c.payload(rt, "key")
		k := &Val{K: "str", S: append([]byte(firsts[i]), tail...)}
		if c.two && !pub {
			if n >= 2 {
				k.T = append([]byte(firsts[i]), vary(rt, "keyt", tail, c.sameLen, false)...)
			} else {
				k.T = vary(rt, "keyt", k.S, c.sameLen, false)
			}
			k.HasT = true
		}
		v.Keys = append(v.Keys, k)
	}
}

// genIntKeys: keys assigned by rank from two sorted draws.
func (c *valConfig) genIntKeys(rt *rapid.T, v *Val, n int, pub bool) {
	base := int64(rapid.IntRange(-50, 50).Draw(rt, "kbase"))
	base2 := base
	if c.two && !pub && !c.shareInts {
		base2 = int64(rapid.IntRange(-50, 50).Draw(rt, "kbase2"))
	}
	a, b := base, base2
	for i := 0; i < n; i++ {
		// no zero keys (zero-ness is shape under a zero precision); steps are
		// >= 2 so that the bump keeps the keys distinct and ordered
		ka, kb := a, b
		if ka == 0 {
			ka = 1
		}
		if kb == 0 {
			kb = 1
		}
		k := &Val{K: "int", I: ka}
		if c.two && !pub && !c.shareInts {
			k.J, k.HasT = kb, true
		}
		v.Keys = append(v.Keys, k)
		a += int64(rapid.IntRange(2, 40).Draw(rt, "kstep"))
		b += int64(rapid.IntRange(2, 40).Draw(rt, "kstep2"))
	}
}

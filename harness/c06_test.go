package verifharness

import (
	"testing"

	"pgregory.net/rapid"
)

func genC06(rt *rapid.T) *C06Spec {
	s := &C06Spec{}
	vc := &valConfig{maxDepth: 2, noWrappers: false}
	switch rapid.IntRange(0, 3).Draw(rt, "universe") {
	case 0:
		vc.fmtCompat = true
	case 1:
		vc.fmtCompat, vc.noPanic = true, true
	}
	s.X = vc.genVal(rt, 0, false)
	if !vc.fmtCompat && rapid.IntRange(0, 7).Draw(rt, "spfmt") == 3 {
		// a formatter that discovers the SafePrinter behind its fmt.State and
		// makes a nested Printf whose format and operands do not match (the
		// reports %!d(MISSING), %!v(BADINDEX), %!(EXTRA ...) are part of the
		// rendering of x)
		args := vc.aligned().genArgs(rt, 1, false, 2)
		f := genSimpleFormat(rt, "spf", len(args), false)
		switch rapid.IntRange(0, 3).Draw(rt, "spmm") {
		case 0:
			f = append(f, "%d"...)
		case 1:
			f = append(f, "%[7]v"...)
		case 2:
			args = append(args, vc.leafS(rt, "str", false, false))
		}
		nested := &Op{K: "Printf", S: f, Args: args}
		s.X = &Val{K: "fmter", Ops: []*Op{{K: "Write", S: B("w")}, {K: "SP", Ops: []*Op{{K: "SafeString", S: B("pre")}, nested, {K: "UnsafeString", S: B("post")}}}}}
	}
	fc := &fmtConfig{noStar: true, noZeroMinus: true, noHugeNumbers: true}
	s.Dir = fc.genDirective(rt)
	if string(s.Dir.Verb) == "%" {
		s.Dir.Verb = B("v")
	}
	n := rapid.IntRange(1, 3).Draw(rt, "chain")
	for i := 0; i < n; i++ {
		s.Chain = append(s.Chain, []string{"safe", "unsafe"}[rapid.IntRange(0, 1).Draw(rt, "w")])
	}
	s.Place = []string{"Top", "Top", "Top", "Slice", "Struct", "Map", "AfterSafe", "RV", "RVIface", "RVField", "RVIndex", "UField"}[rapid.IntRange(0, 11).Draw(rt, "place")]
	if s.Place == "AfterSafe" {
		s.Place += string(rune('0' + rapid.IntRange(0, 7).Draw(rt, "sibling")))
	}
	if string(s.Dir.Verb) == "p" {
		s.Place = "Top" // %p of a container prints the container's own address (a fresh object per call)
	}
	for _, k := range regKindsAll {
		if rapid.IntRange(0, 3).Draw(rt, "reg") == 0 {
			s.Reg = append(s.Reg, k)
		}
	}
	if !vc.fmtCompat && rapid.IntRange(0, 3).Draw(rt, "hook") == 0 {
		s.HasHook = true
		s.Hook = genHookScript(rt, vc)
	}
	return s
}

func TestC06Wrap(t *testing.T) {
	rapidCheck(t, "C06Wrap", func(rt *rapid.T) interface{} { return genC06(rt) })
}

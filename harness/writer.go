package verifharness

// writer.go: the writer-op universe (DESIGN §3.4): running an op script
// against a StringBuilder, a SafePrinter or a ManualBuffer, and the
// segment reference model (DESIGN §3.5).

import (
	"bytes"
	"fmt"
	"io"
	"strconv"
	"strings"
	"sync"
	"unicode/utf8"

	"github.com/cockroachdb/redact"
	ri "github.com/cockroachdb/redact/interfaces"
)

// target abstracts the three SafeWriter implementations.
type target interface {
	redact.SafeWriter
	ioWrite(p []byte)
	ioWriteString(s string)
	ioWriteByte(c byte)
	ioWriteRune(r rune)
	// writer: the target as a plain io.Writer (ready for unsafe bytes)
	writer() io.Writer
	// buffer-only operations; ok=false if not supported by the target
	buf() *redact.ManualBuffer
	state() (fmt.State, rune)
}

// ---- StringBuilder ------------------------------------------------------

type sbTarget struct{ b *redact.StringBuilder }

func (t *sbTarget) SafeString(s redact.SafeString)    { t.b.SafeString(s) }
func (t *sbTarget) SafeInt(s redact.SafeInt)          { t.b.SafeInt(s) }
func (t *sbTarget) SafeUint(s redact.SafeUint)        { t.b.SafeUint(s) }
func (t *sbTarget) SafeFloat(s redact.SafeFloat)      { t.b.SafeFloat(s) }
func (t *sbTarget) SafeRune(s redact.SafeRune)        { t.b.SafeRune(s) }
func (t *sbTarget) SafeByte(s ri.SafeByte)            { t.b.SafeByte(s) }
func (t *sbTarget) SafeBytes(s ri.SafeBytes)          { t.b.SafeBytes(s) }
func (t *sbTarget) Print(a ...interface{})            { t.b.Print(a...) }
func (t *sbTarget) Printf(f string, a ...interface{}) { t.b.Printf(f, a...) }
func (t *sbTarget) UnsafeString(s string)             { t.b.UnsafeString(s) }
func (t *sbTarget) UnsafeByte(s byte)                 { t.b.UnsafeByte(s) }
func (t *sbTarget) UnsafeBytes(s []byte)              { t.b.UnsafeBytes(s) }
func (t *sbTarget) UnsafeRune(s rune)                 { t.b.UnsafeRune(s) }
func (t *sbTarget) ioWrite(p []byte)                  { t.b.Write(p) }
func (t *sbTarget) ioWriteString(s string)            { t.b.WriteString(s) }
func (t *sbTarget) ioWriteByte(c byte)                { t.b.WriteByte(c) }
func (t *sbTarget) ioWriteRune(r rune)                { t.b.WriteRune(r) }
func (t *sbTarget) writer() io.Writer                 { return t.b }
func (t *sbTarget) buf() *redact.ManualBuffer         { return &t.b.Buffer }
func (t *sbTarget) state() (fmt.State, rune)          { return nil, 0 }

// ---- SafePrinter --------------------------------------------------------

type printerTarget struct {
	p    redact.SafePrinter
	verb rune
}

func (t *printerTarget) SafeString(s redact.SafeString)    { t.p.SafeString(s) }
func (t *printerTarget) SafeInt(s redact.SafeInt)          { t.p.SafeInt(s) }
func (t *printerTarget) SafeUint(s redact.SafeUint)        { t.p.SafeUint(s) }
func (t *printerTarget) SafeFloat(s redact.SafeFloat)      { t.p.SafeFloat(s) }
func (t *printerTarget) SafeRune(s redact.SafeRune)        { t.p.SafeRune(s) }
func (t *printerTarget) SafeByte(s ri.SafeByte)            { t.p.SafeByte(s) }
func (t *printerTarget) SafeBytes(s ri.SafeBytes)          { t.p.SafeBytes(s) }
func (t *printerTarget) Print(a ...interface{})            { t.p.Print(a...) }
func (t *printerTarget) Printf(f string, a ...interface{}) { t.p.Printf(f, a...) }
func (t *printerTarget) UnsafeString(s string)             { t.p.UnsafeString(s) }
func (t *printerTarget) UnsafeByte(s byte)                 { t.p.UnsafeByte(s) }
func (t *printerTarget) UnsafeBytes(s []byte)              { t.p.UnsafeBytes(s) }
func (t *printerTarget) UnsafeRune(s rune)                 { t.p.UnsafeRune(s) }
func (t *printerTarget) ioWrite(p []byte)                  { t.p.Write(p) }
func (t *printerTarget) ioWriteString(s string)            { io.WriteString(t.p, s) }
func (t *printerTarget) ioWriteByte(c byte)                { t.p.Write([]byte{c}) }
func (t *printerTarget) ioWriteRune(r rune)                { t.p.Write([]byte(string(r))) }
func (t *printerTarget) writer() io.Writer                 { return t.p }
func (t *printerTarget) buf() *redact.ManualBuffer         { return nil }
func (t *printerTarget) state() (fmt.State, rune)          { return t.p, t.verb }

// ---- ManualBuffer (SafeWriter emulated with SetMode + raw writes) -------

type mbTarget struct{ b *redact.ManualBuffer }

func (t *mbTarget) safe()   { t.b.SetMode(redact.VerifSafeEscaped) }
func (t *mbTarget) unsafe() { t.b.SetMode(redact.VerifUnsafeEscaped) }
func (t *mbTarget) raw()    { t.b.SetMode(redact.VerifSafeRaw) }

func (t *mbTarget) SafeString(s redact.SafeString) { t.safe(); t.b.WriteString(string(s)) }
func (t *mbTarget) SafeInt(s redact.SafeInt) {
	t.safe()
	t.b.WriteString(strconv.FormatInt(int64(s), 10))
}
func (t *mbTarget) SafeUint(s redact.SafeUint) {
	t.safe()
	t.b.WriteString(strconv.FormatUint(uint64(s), 10))
}
func (t *mbTarget) SafeFloat(s redact.SafeFloat) { t.safe(); t.b.WriteString(fmt.Sprint(float64(s))) }
func (t *mbTarget) SafeRune(s redact.SafeRune)   { t.safe(); t.b.WriteRune(rune(s)) }
func (t *mbTarget) SafeByte(s ri.SafeByte)       { t.safe(); t.b.WriteByte(byte(s)) }
func (t *mbTarget) SafeBytes(s ri.SafeBytes)     { t.safe(); t.b.Write(s) }
func (t *mbTarget) Print(a ...interface{}) {
	t.raw()
	t.b.WriteString(string(redact.Sprint(a...)))
}
func (t *mbTarget) Printf(f string, a ...interface{}) {
	t.raw()
	t.b.WriteString(string(redact.Sprintf(f, a...)))
}
func (t *mbTarget) UnsafeString(s string)     { t.unsafe(); t.b.WriteString(s) }
func (t *mbTarget) UnsafeByte(s byte)         { t.unsafe(); t.b.WriteByte(s) }
func (t *mbTarget) UnsafeBytes(s []byte)      { t.unsafe(); t.b.Write(s) }
func (t *mbTarget) UnsafeRune(s rune)         { t.unsafe(); t.b.WriteRune(s) }
func (t *mbTarget) ioWrite(p []byte)          { t.unsafe(); t.b.Write(p) }
func (t *mbTarget) ioWriteString(s string)    { t.unsafe(); t.b.WriteString(s) }
func (t *mbTarget) ioWriteByte(c byte)        { t.unsafe(); t.b.WriteByte(c) }
func (t *mbTarget) ioWriteRune(r rune)        { t.unsafe(); t.b.WriteRune(r) }
func (t *mbTarget) writer() io.Writer         { t.unsafe(); return t.b }
func (t *mbTarget) buf() *redact.ManualBuffer { return t.b }
func (t *mbTarget) state() (fmt.State, rune)  { return nil, 0 }

// ---- operand ledger ---------------------------------------------------------
//
// The byte slices handed to the library stay the caller's (io.Writer: "Write
// must not modify the slice data, even temporarily. Implementations must not
// retain p."). Each slice lent by a history is compared with its content
// when the call returns; while a check has the ledger on it is then
// overwritten (a retained alias would change the destination's content,
// which the model oracle sees) and compared again when the history ends (a
// retained alias that the library writes through would change it).

type ledgerEntry struct {
	what       string
	live, want []byte
}

var ledger struct {
	sync.Mutex
	on      bool
	entries []ledgerEntry
	fault   error
}

func ledgerStart() {
	ledger.Lock()
	ledger.on, ledger.entries, ledger.fault = true, nil, nil
	ledger.Unlock()
}

// ledgerVerify ends the ledger period and reports the first fault.
func ledgerVerify() error {
	ledger.Lock()
	defer ledger.Unlock()
	err := ledger.fault
	for _, e := range ledger.entries {
		if err == nil && !bytes.Equal(e.live, e.want) {
			err = fmt.Errorf("the caller's slice passed to %s was %s after the call and is %s after later calls: the library kept it and wrote through it", e.what, q(e.want), q(e.live))
		}
	}
	ledger.on, ledger.entries, ledger.fault = false, nil, nil
	return err
}

// lent is called when the call that received b (a fresh slice holding
// orig) has returned.
func lent(what string, b []byte, orig string) {
	ledger.Lock()
	defer ledger.Unlock()
	if !ledger.on {
		return
	}
	if string(b) != orig {
		if ledger.fault == nil {
			ledger.fault = fmt.Errorf("%s modified its caller's slice: %s became %s", what, qs(orig), q(b))
		}
		return
	}
	// the caller reuses its slice
	for i := range b {
		b[i] = '#'
	}
	ledger.entries = append(ledger.entries, ledgerEntry{what, b, append([]byte(nil), b...)})
}

// lentArgs records the byte-slice operands of a print call (they are
// shared with other routes, so they are only compared, not overwritten).
func lentArgs(what string, args []interface{}) {
	ledger.Lock()
	defer ledger.Unlock()
	if !ledger.on {
		return
	}
	for _, a := range args {
		var b []byte
		switch x := a.(type) {
		case redact.RedactableBytes:
			b = x
		case []byte:
			b = x
		case ri.SafeBytes:
			b = x
		case NBytes:
			b = x
		}
		if len(b) > 0 {
			ledger.entries = append(ledger.entries, ledgerEntry{what + " operand", b, append([]byte(nil), b...)})
		}
	}
}

// onlyReader hides every optional interface of a reader (WriterTo...).
type onlyReader struct{ io.Reader }

// observer receives the results of accessor ops.
type observer func(i int, op *Op, result interface{})

func runWriterOps(t target, ops []*Op, inst int) { runCompiled(t, compileOps(ops, inst), inst, nil) }

var modes = []redact.VerifOutputMode{redact.VerifUnsafeEscaped, redact.VerifSafeEscaped, redact.VerifSafeRaw}

func runCompiled(t target, ops []*compiled, inst int, obs observer) {
	for i, c := range ops {
		runCompiledOp(t, i, c, inst, obs)
	}
}

// runWriterOp runs one op, building its operands on the spot.
func runWriterOp(t target, i int, op *Op, inst int, obs observer) {
	runCompiledOp(t, i, compileOps([]*Op{op}, inst)[0], inst, obs)
}

func runCompiledOp(t target, i int, c *compiled, inst int, obs observer) {
	op := c.op
	note := func(r interface{}) {
		if obs != nil {
			obs(i, op, r)
		}
	}
	switch op.K {
	case "SafeString":
		t.SafeString(redact.SafeString(op.str(inst)))
	case "SafeInt":
		t.SafeInt(redact.SafeInt(op.int(inst)))
	case "SafeUint":
		t.SafeUint(redact.SafeUint(uint64(op.int(inst))))
	case "SafeFloat":
		t.SafeFloat(redact.SafeFloat(parseFloat(op.F)))
	case "SafeRune":
		t.SafeRune(redact.SafeRune(rune(op.int(inst))))
	case "SafeByte":
		t.SafeByte(ri.SafeByte(byte(op.int(inst))))
	case "SafeBytes":
		b := []byte(op.str(inst))
		t.SafeBytes(ri.SafeBytes(b))
		lent("SafeBytes", b, op.str(inst))
	case "UnsafeString":
		t.UnsafeString(op.str(inst))
	case "UnsafeRune":
		t.UnsafeRune(rune(op.int(inst)))
	case "UnsafeByte":
		t.UnsafeByte(byte(op.int(inst)))
	case "UnsafeBytes":
		b := []byte(op.str(inst))
		t.UnsafeBytes(b)
		lent("UnsafeBytes", b, op.str(inst))
	case "Print":
		lentArgs("Print", c.args)
		t.Print(c.args...)
	case "PrintCast":
		// a redactable the caller cast himself: marker-free bytes, possibly a
		// chunk of an earlier output that starts or ends inside a character
		if op.I%2 == 0 {
			t.Print(redact.RedactableString(op.str(inst)))
		} else {
			t.Print(redact.RedactableBytes(op.str(inst)))
		}
	case "Printf":
		lentArgs("Printf", c.args)
		t.Printf(op.str(inst), c.args...)
	case "Write":
		b := []byte(op.str(inst))
		t.ioWrite(b)
		lent("Write", b, op.str(inst))
	case "WriteString":
		t.ioWriteString(op.str(inst))
	case "IOCopy":
		// the target is an io.Writer like any other: io.Copy uses ReadFrom if
		// the destination has one, Write otherwise; the bytes are unsafe
		if op.str(inst) == "" || len(op.str(inst)) > 16384 {
			// (io.Copy of nothing never calls the writer, and it hands over a
			// long payload in chunks of 32 KiB, which may cut a rune: each chunk
			// is then a payload of its own that is not valid UTF-8. Keep the op
			// one write of one payload.)
			t.ioWrite([]byte(op.str(inst)))
		} else {
			io.Copy(t.writer(), onlyReader{strings.NewReader(op.str(inst))})
		}
	case "StdFprint":
		fmt.Fprint(t.writer(), op.str(inst))
	case "WriteByte":
		t.ioWriteByte(byte(op.int(inst)))
	case "WriteRune":
		t.ioWriteRune(rune(op.int(inst)))
	case "Panic":
		var payload interface{}
		if len(c.args) > 0 {
			payload = c.args[0]
		}
		panic(payload)
	case "State":
		if st, verb := t.state(); st != nil {
			t.SafeString(redact.SafeString(stateString(st, verb, false)))
		}
	case "Fwd":
		if st, verb := t.state(); st != nil {
			_, f := redact.MakeFormat(st, verb)
			t.Printf(f, c.args...)
		} else {
			t.Print(c.args...)
		}
	// ---- buffer-level operations (StringBuilder and ManualBuffer only)
	case "MBSetMode":
		if b := t.buf(); b != nil {
			b.SetMode(modes[int(op.I)%3])
		}
	case "MBWrite":
		if b := t.buf(); b != nil {
			p := []byte(op.str(inst))
			b.Write(p)
			lent("Buffer.Write", p, op.str(inst))
		}
	case "MBWriteString":
		if b := t.buf(); b != nil {
			b.WriteString(op.str(inst))
		}
	case "MBWriteByte":
		if b := t.buf(); b != nil {
			b.WriteByte(byte(op.int(inst)))
		}
	case "MBWriteRune":
		if b := t.buf(); b != nil {
			b.WriteRune(rune(op.int(inst)))
		}
	case "Grow":
		if b := t.buf(); b != nil {
			b.Grow(int(op.I))
		}
	case "Len":
		if b := t.buf(); b != nil {
			note(b.Len())
		}
	case "Cap":
		if b := t.buf(); b != nil {
			note(b.Cap())
		}
	case "String":
		if b := t.buf(); b != nil {
			note(b.String())
		}
	case "RedactableString":
		if b := t.buf(); b != nil {
			note(b.RedactableString())
		}
	case "RedactableBytes":
		if b := t.buf(); b != nil {
			note(b.RedactableBytes())
		}
	case "GetMode":
		if b := t.buf(); b != nil {
			note(b.GetMode())
		}
	case "Reset":
		if b := t.buf(); b != nil {
			b.Reset()
		}
	case "TakeS":
		if b := t.buf(); b != nil {
			note(b.TakeRedactableString())
		}
	case "TakeB":
		if b := t.buf(); b != nil {
			note(b.TakeRedactableBytes())
		}
	default:
		panic("HARNESS: unknown writer op " + op.K)
	}
}

// ---- segment model --------------------------------------------------------

type segClass int

const (
	segSafe segClass = iota
	segUnsafe
	segRaw
)

type segment struct {
	class segClass
	data  []byte
}

func isASCII(b []byte) bool {
	for _, c := range b {
		if c >= utf8.RuneSelf {
			return false
		}
	}
	return true
}

// modelOps returns the segments of a history of pure writer ops;
// exact=false if some payload is outside the domain of the two
// equalities (invalid UTF-8, invalid rune, non-ASCII single byte) or an
// op is not modelled.
func modelOps(ops []*Op, inst int) (segs []segment, exact bool) {
	exact = true
	mode := segUnsafe // for MB* ops: the buffer's initial mode is UnsafeEscaped
	add := func(c segClass, b []byte) {
		if !utf8.Valid(b) {
			// (for raw segments too: a nested Print shares the outer buffer, so
			// where the '?' guard after a dangling byte lands depends on what
			// follows; the equalities are stated for valid UTF-8 only)
			exact = false
		}
		segs = append(segs, segment{c, b})
	}
	for _, op := range ops {
		switch op.K {
		case "SafeString", "SafeBytes":
			add(segSafe, []byte(op.str(inst)))
			mode = segSafe
		case "SafeInt":
			add(segSafe, []byte(strconv.FormatInt(op.int(inst), 10)))
			mode = segSafe
		case "SafeUint":
			add(segSafe, []byte(strconv.FormatUint(uint64(op.int(inst)), 10)))
			mode = segSafe
		case "SafeFloat":
			add(segSafe, []byte(fmt.Sprint(parseFloat(op.F))))
			mode = segSafe
		case "SafeRune", "UnsafeRune", "WriteRune":
			r := rune(op.int(inst))
			if !utf8.ValidRune(r) {
				exact = false
			}
			c := segSafe
			if op.K != "SafeRune" {
				c = segUnsafe
			}
			add(c, []byte(string(r)))
			mode = c
		case "SafeByte", "UnsafeByte", "WriteByte":
			c := byte(op.int(inst))
			if c >= utf8.RuneSelf {
				exact = false
			}
			cl := segSafe
			if op.K != "SafeByte" {
				cl = segUnsafe
			}
			add(cl, []byte{c})
			mode = cl
		case "UnsafeString", "UnsafeBytes", "Write", "WriteString", "IOCopy", "StdFprint":
			add(segUnsafe, []byte(op.str(inst)))
			mode = segUnsafe
		case "Print":
			add(segRaw, []byte(redact.Sprint(BuildAll(op.Args, inst)...)))
			mode = segRaw
		case "Printf":
			add(segRaw, []byte(redact.Sprintf(op.str(inst), BuildAll(op.Args, inst)...)))
			mode = segRaw
		case "MBSetMode":
			mode = []segClass{segUnsafe, segSafe, segRaw}[int(op.I)%3]
		case "MBWrite", "MBWriteString":
			add(mode, []byte(op.str(inst)))
		case "MBWriteRune":
			r := rune(op.int(inst))
			if !utf8.ValidRune(r) {
				exact = false
			}
			add(mode, []byte(string(r)))
		case "MBWriteByte":
			c := byte(op.int(inst))
			if c >= utf8.RuneSelf {
				exact = false
			}
			add(mode, []byte{c})
		case "Len", "Cap", "String", "RedactableString", "RedactableBytes", "GetMode", "Grow":
			// pure
		case "Reset", "TakeS", "TakeB":
			segs = nil
			mode = segUnsafe
		default:
			exact = false
		}
	}
	return segs, exact
}

// modelStrip / modelSafeText: the observable meaning of a history.
func modelStrip(segs []segment) []byte {
	var out []byte
	for _, s := range segs {
		if s.class == segRaw {
			out = append(out, strip(s.data)...)
		} else {
			out = append(out, esc(s.data)...)
		}
	}
	return out
}

func modelSafeText(segs []segment) []byte {
	var out []byte
	for _, s := range segs {
		switch s.class {
		case segSafe:
			out = append(out, esc(s.data)...)
		case segUnsafe:
			out = append(out, lfs(s.data)...)
		case segRaw:
			out = append(out, delEnv(s.data)...)
		}
	}
	return out
}

// prefixModel: the observable meaning (stripped text, text outside
// envelopes) of every prefix of a history, computed in one pass.
type prefixModel struct {
	strip, safe []byte
	exact       bool
}

func modelPrefixes(ops []*Op, inst int) []prefixModel {
	out := make([]prefixModel, len(ops))
	var strip, safe []byte
	exact := true
	nseg := 0
	// modelOps is replayed op by op on a growing window: each op's own
	// segments are obtained by modelling it after a mode-setting stub
	mode := segUnsafe
	for i, op := range ops {
		// model the single op in the current raw-write mode
		stub := []*Op{{K: "MBSetMode", I: int64(map[segClass]int{segUnsafe: 0, segSafe: 1, segRaw: 2}[mode])}, op}
		segs, ex := modelOps(stub, inst)
		switch op.K {
		case "Reset", "TakeS", "TakeB":
			strip, safe = nil, nil
			mode = segUnsafe
			exact = true // a new buffer: earlier inexact payloads are gone
		default:
			if !ex {
				exact = false
			}
			strip = append(strip, modelStrip(segs)...)
			safe = append(safe, modelSafeText(segs)...)
			nseg += len(segs)
			// track the mode the op leaves behind
			switch op.K {
			case "SafeString", "SafeBytes", "SafeInt", "SafeUint", "SafeFloat", "SafeRune", "SafeByte":
				mode = segSafe
			case "UnsafeString", "UnsafeBytes", "Write", "WriteString", "UnsafeRune", "WriteRune", "UnsafeByte", "WriteByte", "IOCopy", "StdFprint":
				mode = segUnsafe
			case "Print", "Printf":
				mode = segRaw
			case "MBSetMode":
				mode = []segClass{segUnsafe, segSafe, segRaw}[int(op.I)%3]
			}
		}
		out[i] = prefixModel{strip: strip[:len(strip):len(strip)], safe: safe[:len(safe):len(safe)], exact: exact}
	}
	return out
}

package verifharness

import (
	"testing"

	"pgregory.net/rapid"
)

var c02Routes = []string{"Sprintf", "Sprintf", "Sprintf", "Sprintf", "Sprint", "Fprintf", "HelperForErrorf", "SBPrintf", "SprintfnPrintf"}

// tagPrivateUse appends a private-use rune to the content of the unsafe
// string leaves of instantiation A (top level and nested).
func tagPrivateUse(v *Val, n *int) {
	if v == nil {
		return
	}
	if v.HasT && stringKinds[v.K] && len(v.S) > 0 && v.S[len(v.S)-1] != '\n' && !regOrPublicKind(v.K) {
		// replace the last rune (keeps the rune count, so rune-for-rune
		// alignment with instantiation B is preserved)
		r := []rune(string(v.S))
		r[len(r)-1] = rune(0x100000 + *n%200)
		*n++
		v.S = B(string(r))
	}
	for _, s := range v.Sub {
		tagPrivateUse(s, n)
	}
}

func regOrPublicKind(k string) bool {
	switch k {
	case "SafeString", "svstr", "svstringer", "svsstringer", "sverr", "svstruct", "safemsg", "errsafemsg", "safemsg!":
		return true
	}
	return false
}

func genC02(rt *rapid.T) *FmtCase {
	c := &FmtCase{Route: c02Routes[rapid.IntRange(0, len(c02Routes)-1).Draw(rt, "route")]}
	reg := map[string]bool{}
	for _, k := range regKindsAll {
		if rapid.IntRange(0, 3).Draw(rt, "reg") == 0 {
			c.Reg = append(c.Reg, k)
			reg[k] = true
		}
	}
	fc := &fmtConfig{}
	// a fifth of the cases draws payloads over the byte alphabet (partial
	// markers, invalid UTF-8) instead of valid text
	bytesAlpha := rapid.IntRange(0, 4).Draw(rt, "bytealpha") == 3
	if rapid.IntRange(0, 99).Draw(rt, "chaotic") < 25 {
		// the binding of operands to directives is unknown: rune-for-rune
		// substitution, integers shared (any of them may feed a '*')
		vc := &valConfig{two: true, sameLen: true, shareInts: true, maxDepth: 2, reg: reg, bytesAlpha: bytesAlpha}
		c.HasRaw = true
		c.Raw = fc.genChaoticFormat(rt)
		// %p of a Safe()-wrapped slice or map prints an address outside any
		// envelope; the two instantiations are distinct objects
		vc.noWrappers = bytesContains(c.Raw, 'p')
		n := rapid.IntRange(0, 4).Draw(rt, "nargs")
		for i := 0; i < n; i++ {
			c.Args = append(c.Args, vc.genVal(rt, 0, false))
		}
	} else {
		n := rapid.IntRange(0, 3).Draw(rt, "ndirs")
		missing := false
		if !c.isPrintf() {
			n = rapid.IntRange(1, 3).Draw(rt, "nops")
		}
		for i := 0; i < n; i++ {
			if rapid.IntRange(0, 2).Draw(rt, "haslit") > 0 {
				c.Segs = append(c.Segs, Seg{Lit: fc.genLit(rt)})
			}
			d := fc.genDirective(rt)
			if !c.isPrintf() {
				d = &Directive{Verb: B("v")}
			}
			c.Segs = append(c.Segs, Seg{Dir: d})
			if d.Width == "*" {
				c.Args = append(c.Args, genStarOperand(rt))
			}
			if d.Prec == ".*" {
				c.Args = append(c.Args, genStarOperand(rt))
			}
			if string(d.Verb) == "%" {
				continue
			}
			if rapid.IntRange(0, 19).Draw(rt, "missing") == 0 && i == n-1 {
				missing = true
				continue
			}
			vc := &valConfig{two: true, sameLen: d.hasWP(), shareInts: string(d.Verb) == "c", maxDepth: 2, reg: reg, bytesAlpha: bytesAlpha,
				noWrappers: string(d.Verb) == "p"} // see above
			if rapid.IntRange(0, 14).Draw(rt, "hmsv") == 0 {
				// keys of a SafeValue type (shared), unsafe values (varied), all
				// of it out of reach of Interface()
				hv := &Val{K: "hmsv"}
				hn := rapid.IntRange(1, 3).Draw(rt, "hmsvn")
				vc.genStrKeys(rt, hv, hn, true)
				for j := 0; j < hn; j++ {
					hv.Sub = append(hv.Sub, vc.leafS(rt, "str", false, false))
				}
				c.Args = append(c.Args, hv)
				continue
			}
			c.Args = append(c.Args, vc.genVal(rt, 0, false))
		}
		if rapid.IntRange(0, 2).Draw(rt, "taillit") > 0 {
			c.Segs = append(c.Segs, Seg{Lit: fc.genLit(rt)})
		}
		if !missing && rapid.IntRange(0, 14).Draw(rt, "extra") == 0 {
			// (not after a missing operand: it would be bound to that directive)
			vc := &valConfig{two: true, maxDepth: 1, reg: reg}
			c.Args = append(c.Args, vc.genVal(rt, 0, false))
		}
	}
	if rapid.IntRange(0, 4).Draw(rt, "hook") == 0 {
		c.HasHook = true
		c.Hook = genHookScript(rt, &valConfig{})
	}
	n := 0
	for _, a := range c.Args {
		tagPrivateUse(a, &n)
	}
	return tame(c)
}

func TestC02Pair(t *testing.T) {
	rapidCheck(t, "C02Pair", func(rt *rapid.T) interface{} { return genC02(rt) })
}

package verifharness

import (
	"testing"

	"pgregory.net/rapid"
)

func genWFCase(rt *rapid.T, lfBias bool) *FmtCase {
	fc := &fmtConfig{bytesAlpha: rapid.Bool().Draw(rt, "fbytes")}
	vc := &valConfig{bytesAlpha: rapid.Bool().Draw(rt, "vbytes"), maxDepth: 2}
	c := genFmtCase(rt, fc, vc, printRoutes, 35)
	// configurations: registered types, error hook
	for _, k := range regKindsAll {
		if rapid.IntRange(0, 3).Draw(rt, "reg") == 0 {
			c.Reg = append(c.Reg, k)
		}
	}
	if rapid.IntRange(0, 3).Draw(rt, "hook") == 0 {
		c.HasHook = true
		c.Hook = genHookScript(rt, vc)
	}
	return c
}

func genHookScript(rt *rapid.T, vc *valConfig) []*Op {
	// what the hook prints besides the error itself: any value that is not
	// an error (the hook would be re-entered for it without end), including
	// values whose methods panic
	av := &valConfig{bytesAlpha: vc.bytesAlpha, maxDepth: 1, noErrors: true, noPointers: true, noRedactable: true}
	oc := &opConfig{bytesAlpha: vc.bytesAlpha, ioSide: true, prints: true, maxTok: 3,
		args: func(rt *rapid.T, label string) []*Val { return av.genArgs(rt, 2, false, 2) }}
	n := rapid.IntRange(0, 4).Draw(rt, "nhook")
	ops := []*Op{}
	for i := 0; i < n; i++ {
		switch rapid.IntRange(0, 6).Draw(rt, "hk") {
		case 0:
			ops = append(ops, &Op{K: "Verb"})
		case 6:
			ops = append(ops, &Op{K: "Cause"})
		case 1, 2:
			ops = append(ops, &Op{K: "ErrText"})
		default:
			ops = append(ops, genOp(rt, oc))
		}
	}
	return ops
}

func TestC01Fmt(t *testing.T) {
	rapidCheck(t, "C01Fmt", func(rt *rapid.T) interface{} { return genWFCase(rt, false) })
}

func TestC03Fmt(t *testing.T) {
	rapidCheck(t, "C03Fmt", func(rt *rapid.T) interface{} { return genWFCase(rt, true) })
}

func genHistCtx(rt *rapid.T) *HistCtx {
	vc := &valConfig{bytesAlpha: rapid.Bool().Draw(rt, "vbytes"), maxDepth: 1}
	oc := &opConfig{bytesAlpha: rapid.Bool().Draw(rt, "obytes"), ioSide: true, prints: true, maxTok: 4,
		args: func(rt *rapid.T, label string) []*Val { return vc.genArgs(rt, 1, false, 2) }}
	h := &HistCtx{Ctx: histContexts[rapid.IntRange(0, len(histContexts)-1).Draw(rt, "ctx")]}
	if h.Ctx == "SB" || h.Ctx == "MB" || h.Ctx == "SBBytes" || h.Ctx == "PrintSB" {
		oc.mb = rapid.Bool().Draw(rt, "mbops")
		// read-only accessors between the writes (they finalize a copy; what
		// is pending in the buffer itself must still be escaped and split)
		oc.accessors = rapid.Bool().Draw(rt, "accops")
	}
	h.Ops = genHistory(rt, oc, 12)
	if rapid.Bool().Draw(rt, "hasdir") {
		h.Dir = (&fmtConfig{noStar: true}).genDirective(rt)
	}
	return h
}

func TestC01Hist(t *testing.T) {
	rapidCheck(t, "C01Hist", func(rt *rapid.T) interface{} { return genHistCtx(rt) })
}

func TestC03Hist(t *testing.T) {
	rapidCheck(t, "C03Hist", func(rt *rapid.T) interface{} { return genHistCtx(rt) })
}

func genJoin(rt *rapid.T) *JoinSpec {
	vc := &valConfig{bytesAlpha: rapid.Bool().Draw(rt, "vbytes"), maxDepth: 1}
	j := &JoinSpec{To: []string{"Join", "JoinToSB", "JoinToPrinter"}[rapid.IntRange(0, 2).Draw(rt, "to")]}
	j.Delim = vc.genPrintSpec(rt, 1, false)
	n := rapid.IntRange(0, 4).Draw(rt, "nitems")
	for i := 0; i < n; i++ {
		j.Items = append(j.Items, vc.genPrintSpec(rt, 1, false))
	}
	j.Lines = rapid.IntRange(0, 2).Draw(rt, "lines") == 0
	j.NoDelim = rapid.IntRange(0, 2).Draw(rt, "nodelim") == 0
	return j
}

func TestC01Join(t *testing.T) {
	rapidCheck(t, "C01Join", func(rt *rapid.T) interface{} { return genJoin(rt) })
}

func TestC03Join(t *testing.T) {
	rapidCheck(t, "C03Join", func(rt *rapid.T) interface{} { return genJoin(rt) })
}

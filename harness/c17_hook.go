package verifharness

// C17 — a registered error hook renders every error operand, except under Unsafe.

import (
	"bytes"
	"fmt"
	"sort"
	"strings"

	"github.com/cockroachdb/redact"
)

func init() {
	register("C17Hook", "C17", func() interface{} { return &FmtCase{} }, func(s interface{}) Result { return checkC17(s.(*FmtCase)) })
}

// StandIn is an error that is also a SafeFormatter whose SafeFormat runs
// the hook's script: what the hook dispatch must be equivalent to.
type StandIn struct {
	err error
}

func (s StandIn) Error() string { return safeErrorText(s.err) }
func (s StandIn) SafeFormat(p redact.SafePrinter, verb rune) {
	standinLog = append(standinLog, hookCall{Err: s.err, Verb: verb})
	runHookScript(s.err, p, verb, currentHook)
}

var standinLog []hookCall
var currentHook []*compiled

// nCauseOps: how many times the installed hook script prints the cause
var nCauseOps int

// nSVErr: SafeValue-marked errors in dispatched positions (rendered by the
// real hook in both runs)
var nSVErr int

// hooked error kinds: errors that are neither SafeFormatter nor SafeMessager
var hookedKinds = map[string]bool{"err": true, "perr": true, "stderr": true, "serr": true, "ierr": true, "errwrap": true, "nilerr": true,
	"errstringer": true, "errfmter": true, "err!": true, "perr!": true, "errwrapv": true,
	// byte-kinded errors (alone and as the elements of a typed slice), named
	// slice types whose nil value makes Error panic
	"byteerr": true, "sliceerr": true, "nilsliceerr": true, "errgostr": true}

type expectedCall struct {
	kind string
	verb rune
}

// standInShape replaces every error in a dispatched position by a "standin"
// value and lists the hook calls the property demands.
func standInShape(v *Val, verb rune, dispatched bool, depth int, exp *[]expectedCall) *Val {
	if v == nil {
		return nil
	}
	if v.K == "sverr" {
		// an error whose type is marked SafeValue: the hook renders it like any
		// other error (under the safe override, which the stand-in cannot
		// reproduce: the value stays as it is in both shapes, only the call is
		// expected)
		if dispatched {
			*exp = append(*exp, expectedCall{kind: v.K, verb: verb})
			nSVErr++
		}
		return v
	}
	if hookedKinds[v.K] {
		if dispatched {
			*exp = append(*exp, expectedCall{kind: v.K, verb: verb})
			inner := v
			if (v.K == "errwrap" || v.K == "errwrapv") && len(v.Sub) == 1 && nCauseOps > 0 {
				// the hook prints the cause through the printer (verb v): it is
				// dispatched too, once per "Cause" op of the script
				c := *v
				var sub []expectedCall
				c.Sub = []*Val{standInShape(v.Sub[0], 'v', true, 0, &sub)}
				for i := 0; i < nCauseOps; i++ {
					*exp = append(*exp, sub...)
				}
				inner = &c
			}
			return &Val{K: "standin", Sub: []*Val{inner}}
		}
		return v
	}
	if len(v.Sub) == 0 {
		return v // same node in both shapes: built once (same object, same address)
	}
	c := *v
	c.Sub = nil
	switch v.K {
	case "unsafe":
		// the hook is bypassed under Unsafe(): nothing inside is dispatched to it
		for _, s := range v.Sub {
			c.Sub = append(c.Sub, standInShape(s, verb, false, depth+1, exp))
		}
	case "structA", "pstructA":
		for i, s := range v.Sub {
			// X (exported, interface-typed) is dispatched; z (unexported) is not
			c.Sub = append(c.Sub, standInShape(s, verb, dispatched && i == 0, depth+1, exp))
		}
	case "rv":
		for _, s := range v.Sub {
			c.Sub = append(c.Sub, standInShape(s, verb, dispatched && depth == 0, depth+1, exp))
		}
	case "stringer!", "pstringer!":
		// String is called for the string verbs (never under '#', which the
		// generator keeps away); it panics with Sub[0], which the report of
		// the panic prints with the verb v
		called := verb == 'v' || verb == 's' || verb == 'x' || verb == 'X' || verb == 'q'
		for _, s := range v.Sub {
			c.Sub = append(c.Sub, standInShape(s, 'v', dispatched && called, depth+1, exp))
		}
	case "berrslice":
		// under the byte-string verbs a slice of byte-kinded elements is a
		// byte string: its elements are not formatted one by one
		bs := verb == 's' || verb == 'q' || verb == 'x' || verb == 'X'
		for _, s := range v.Sub {
			c.Sub = append(c.Sub, standInShape(s, verb, dispatched && !bs, depth+1, exp))
		}
	default:
		for _, s := range v.Sub {
			c.Sub = append(c.Sub, standInShape(s, verb, dispatched, depth+1, exp))
		}
	}
	return &c
}

func logKey(calls []hookCall) []string {
	var out []string
	for _, c := range calls {
		out = append(out, fmt.Sprintf("%T|%s|%c", c.Err, safeErrorText(c.Err), c.Verb))
	}
	sort.Strings(out)
	return out
}

func checkC17(c *FmtCase) Result {
	var res Result
	format := c.Format()
	// which verb reaches which operand (structured formats, no '*')
	verbs := make([]rune, len(c.Args))
	for i := range verbs {
		verbs[i] = 'v' // Sprint, EXTRA
	}
	if c.isPrintf() {
		ai := 0
		for _, s := range c.Segs {
			if s.Dir == nil || string(s.Dir.Verb) == "%" {
				continue
			}
			if ai < len(verbs) {
				verbs[ai] = []rune(string(s.Dir.Verb))[0]
				if verbs[ai] == 'w' {
					verbs[ai] = 'v' // the single, correct %w of HelperForErrorf is handed on as 'v'
				}
			}
			ai++
		}
	}
	nCauseOps = 0
	nSVErr = 0
	for _, op := range c.Hook {
		if op.K == "Cause" && c.HasHook {
			nCauseOps++
		}
	}
	var exp []expectedCall
	shape := *c
	shape.Args = nil
	for i, a := range c.Args {
		dispatched := verbs[i] != 'T' && verbs[i] != 'p'
		shape.Args = append(shape.Args, standInShape(a, verbs[i], dispatched, 0, &exp))
	}
	nested := false
	for _, a := range c.Args {
		if !hookedKinds[a.K] {
			nested = true
		}
	}
	res.NonTrivial = c.HasHook && len(exp) > 0 && (nested || format != "%v")
	for _, op := range c.Hook {
		if op.K == "Panic" {
			res.Classes = append(res.Classes, "hook-panics")
		}
	}
	for _, e := range exp {
		res.Classes = append(res.Classes, fmt.Sprintf("hooked:%s:%%%c", e.kind, e.verb))
	}
	fail := func(f string, a ...interface{}) Result {
		res.Err = fmt.Errorf("%s(%s, ...): %s", c.Route, qs(format), fmt.Sprintf(f, a...))
		return res
	}

	// run 1: the real errors with the hook installed
	applyConfig(c.Reg, c.HasHook, c.Hook)
	defer resetConfig()
	var args []interface{}
	bld := &builder{cache: map[*Val]interface{}{}}
	if p, _ := guard(func() { args = buildAllWith(bld, c.Args) }); p {
		return res
	}
	got := callRedact(c.Route, format, args)
	calls := append([]hookCall(nil), hookLog...)
	if got.panicked {
		return fail("panicked: %v", got.panicVal)
	}
	if !c.HasHook {
		if len(calls) != 0 {
			return fail("hook called although none is installed")
		}
		return res
	}
	// a panicking method of a nil pointer is reported as "<nil>" (as in fmt);
	// the stand-in is a struct, never a nil pointer
	hookPanics := false
	for _, op := range c.Hook {
		if op.K == "Panic" {
			hookPanics = true
		}
	}
	if hookPanics {
		for _, e := range exp {
			if e.kind == "nilerr" {
				res.Classes = append(res.Classes, "panicking-hook-on-nil-receiver")
				return res
			}
		}
	}
	// run 2: the stand-in shape
	hookLog = hookLog[:0]
	standinLog = standinLog[:0]
	var sargs []interface{}
	if p, _ := guard(func() { sargs = buildAllWith(bld, shape.Args) }); p {
		return res
	}
	want := callRedact(c.Route, format, sargs)
	if want.panicked {
		return fail("stand-in run panicked: %v", want.panicVal)
	}
	if len(hookLog) != nSVErr {
		return fail("the hook was called %d times in the stand-in run, want %d (only for SafeValue-marked errors; not for errors that are SafeFormatters, nor in positions that are not dispatched)", len(hookLog), nSVErr)
	}
	svCalls := append([]hookCall(nil), hookLog...)
	// a panic in the hook is reported under the name "SafeFormatter", one in
	// the stand-in's SafeFormat method under "SafeFormat"
	// (a SafeFormat method called from the hook's own operands can panic as
	// well, in both runs: compare with the two names identified)
	unify := func(b []byte) []byte {
		return bytes.ReplaceAll(b, []byte("(PANIC=SafeFormatter method: "), []byte("(PANIC=SafeFormat method: "))
	}
	if !bytes.Equal(unify(got.out), unify(want.out)) {
		return fail("with the hook: %s; with every dispatched error replaced by a SafeFormatter running the hook's script: %s", q(got.out), q(want.out))
	}
	// the hook was called exactly once per dispatched error, with the right verb
	var wantKeys []string
	for _, sc := range append(append([]hookCall(nil), standinLog...), svCalls...) {
		wantKeys = append(wantKeys, fmt.Sprintf("%T|%s|%c", sc.Err, safeErrorText(sc.Err), sc.Verb))
	}
	sort.Strings(wantKeys)
	if gk := logKey(calls); strings.Join(gk, "\n") != strings.Join(wantKeys, "\n") {
		return fail("hook calls %v, want %v", gk, wantKeys)
	}
	if len(calls) != len(exp) {
		return fail("hook called %d times, but %d error operands are in dispatched positions (%v)", len(calls), len(exp), exp)
	}
	// ... and with the active verb ('v' for the %w of HelperForErrorf)
	var gotVerbs, wantVerbs []string
	for _, c := range calls {
		gotVerbs = append(gotVerbs, string(c.Verb))
	}
	for _, e := range exp {
		wantVerbs = append(wantVerbs, string(e.verb))
	}
	sort.Strings(gotVerbs)
	sort.Strings(wantVerbs)
	if strings.Join(gotVerbs, ",") != strings.Join(wantVerbs, ",") {
		return fail("the hook received the verbs %v, the directives reaching the errors are %v", gotVerbs, wantVerbs)
	}
	for i := range exp {
		_ = i
	}
	if got.err != nil || want.err != nil {
		// HelperForErrorf: the wrapped error is the operand itself
		res.Classes = append(res.Classes, "helperForErrorf-wraps")
	}
	// under Unsafe(): bypassed, plain text fully enveloped
	for i, a := range c.Args {
		if a.K == "unsafe" && len(a.Sub) == 1 && hookedKinds[a.Sub[0].K] && a.Sub[0].K != "errfmter" {
			var one []interface{}
			if p, _ := guard(func() { one = []interface{}{Build(a, 0)} }); p {
				continue
			}
			d := "%" + string(verbs[i])
			hookLog = hookLog[:0]
			with := callRedact("Sprintf", d, one)
			n := len(hookLog)
			redact.RegisterRedactErrorFn(nil)
			without := callRedact("Sprintf", d, one)
			applyConfig(c.Reg, c.HasHook, c.Hook)
			if n != 0 {
				return fail("hook called for an error under Unsafe()")
			}
			if !bytes.Equal(with.out, without.out) {
				return fail("Unsafe(err) prints %s with the hook and %s without", q(with.out), q(without.out))
			}
			if !LS(with.out) || len(bytes.TrimLeft(delEnv(with.out), "\n")) != 0 {
				return fail("Unsafe(err) prints %s: not fully enveloped", q(with.out))
			}
			res.Classes = append(res.Classes, "under-Unsafe")
		}
	}
	return res
}

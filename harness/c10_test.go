package verifharness

import (
	"sync"
	"testing"

	"pgregory.net/rapid"
)

// byte alphabet (DESIGN §3.2): marker bytes, other lead bytes, lone
// continuation byte, FF, and text.
var byteAlphabet = [][]byte{
	{0xE2}, {0x80}, {0xB9}, {0xBA}, []byte(startS), []byte(endS), []byte("×"), {0xC3}, {0xF0}, {0xFF}, {0xA9},
	[]byte("a"), []byte("b"), []byte(" "), []byte("\n"), []byte("\n\n"), []byte("?"), []byte("%"), []byte("\""), []byte("\\"),
	[]byte("é"), []byte("世"), []byte("😀"), []byte("\xe2\x80"), []byte("x"), []byte("0"),
	// marker look-alikes: runes that share trailing bytes with a marker
	[]byte("〺"), []byte("〹"), []byte("်"), []byte("္"), []byte("º"), []byte("¹"), []byte("\U00010039"), {0xE3}, {0xE1},
	// the decoder's error value correctly encoded and cut; truncated 3- and 4-byte sequences
	[]byte("\uFFFD"), {0xEF, 0xBF}, {0xF0, 0x9F}, {0xE3, 0x81}, []byte("\u200b"),
	[]byte("\r"), []byte("\r\n"), []byte("\n\r"),
}

func genBytesAlpha(rt *rapid.T, label string, maxTok int) []byte {
	return genOver(rt, label, maxTok, byteAlphabet)
}

func TestC10Escape(t *testing.T) {
	rapidCheck(t, "C10Escape", func(rt *rapid.T) interface{} {
		b := genBytesAlpha(rt, "in", 40)
		if rapid.IntRange(0, 24).Draw(rt, "bigin") == 9 {
			// a big input (size thresholds) that ends in the first bytes of a
			// marker or of another multi-byte sequence
			bulk := genBulkOp(rt, &opConfig{bytesAlpha: true}, "bulk").S
			tail := [][]byte{{0xE2}, {0xE2, 0x80}, {0xC3}, {0xF0, 0x9F}, []byte(startS), {}}[rapid.IntRange(0, 5).Draw(rt, "bigtail")]
			b = append(append(append([]byte(nil), b...), bulk...), tail...)
		}
		s := &EscSpec{In: b, Start: -1}
		if rapid.Bool().Draw(rt, "internal") {
			s.Start = rapid.IntRange(0, len(b)).Draw(rt, "start")
			s.Break = rapid.Bool().Draw(rt, "break")
		}
		return s
	})
}

func TestC10Split(t *testing.T) {
	rapidCheck(t, "C10Split", func(rt *rapid.T) interface{} {
		b := genBytesAlpha(rt, "in", 24)
		s := &SplitSpec{In: b, Unsafe: rapid.Bool().Draw(rt, "unsafe"), Look: rapid.IntRange(0, 2).Draw(rt, "look") == 0}
		nc := rapid.IntRange(0, 5).Draw(rt, "ncuts")
		if rapid.IntRange(0, 14).Draw(rt, "bulksplit") == 7 {
			// a small head (possibly ending inside a rune or a marker), one
			// big chunk (size thresholds), a small tail: cuts around the chunk
			head := genBytesAlpha(rt, "head", 6)
			bulk := genBulkOp(rt, &opConfig{bytesAlpha: true}, "bulk").S
			tail := genBytesAlpha(rt, "tail", 6)
			b = append(append(append([]byte(nil), head...), bulk...), tail...)
			s.In = b
			s.Cuts = []int{len(head), len(head) + len(bulk)}
			nc = 2
		} else {
			prev := 0
			for i := 0; i < nc; i++ {
				c := rapid.IntRange(prev, len(b)).Draw(rt, "cut")
				s.Cuts = append(s.Cuts, c)
				prev = c
			}
		}
		for i := 0; i <= nc; i++ {
			s.Str = append(s.Str, rapid.Bool().Draw(rt, "str"))
		}
		switch rapid.IntRange(0, 3).Draw(rt, "pre") {
		case 1:
			s.Pre = B("x " + startS + "y" + endS)
		case 2:
			s.Pre = B("safe")
		case 3:
			s.Pre = B(startS + "y" + endS + "\n")
		}
		return s
	})
}

var enumAlphabetC10 = []byte{0xE2, 0x80, 0xB9, 0xBA, 'a', '\n', '?', 0xC3, ' '}

// TestEnumC10 enumerates all byte strings up to $VERIF_BOUND over the
// first $VERIF_ALPHA symbols of enumAlphabetC10.
func TestEnumC10(t *testing.T) {
	bound := envInt("VERIF_BOUND", 5)
	na := envInt("VERIF_ALPHA", 8)
	innerBound := envInt("VERIF_INNER_BOUND", 5) // internal routine: all offsets x flags up to this length
	alpha := enumAlphabetC10[:na]
	var failMu sync.Mutex
	var failed *EscSpec
	var failErr error
	enumStrings(alpha, bound, 16, func(b []byte) bool {
		specs := []EscSpec{{In: b, Start: -1}}
		if len(b) <= innerBound {
			specs = specs[:0]
			for st := 0; st <= len(b); st++ {
				specs = append(specs, EscSpec{In: b, Start: st, Break: false}, EscSpec{In: b, Start: st, Break: true})
			}
		}
		for i := range specs {
			sp := specs[i]
			sp.In = append(B(nil), b...)
			res := checks["C10Escape"].runSafely(&sp)
			col.CaseFP("C10Escape(enum)", fingerprint(b)+uint64(sp.Start+1)*2654435761+b2u(sp.Break), res.NonTrivial, func() interface{} { return &sp }, res.Classes...)
			if res.Err != nil {
				failMu.Lock()
				if failed == nil || len(sp.In) < len(failed.In) {
					failed, failErr = &sp, res.Err
				}
				failMu.Unlock()
				return false
			}
		}
		return true
	})
	if failed != nil {
		enumFail(t, "C10Escape", failed, failErr)
	}
	col.Exhaustive("C10Escape(enum)", "all byte strings of length <= "+itoa(bound)+" over "+q(alpha)+"; internal routine for every start offset and both line-break settings up to length "+itoa(innerBound))
}

func b2u(b bool) uint64 {
	if b {
		return 1
	}
	return 0
}

package verifharness

import (
	"pgregory.net/rapid"
)

// genFmtCase draws a print case: structured (the harness knows which
// operand each directive consumes) or chaotic (byte soup).
func genFmtCase(rt *rapid.T, fc *fmtConfig, vc *valConfig, routes []string, chaoticPct int) *FmtCase {
	c := &FmtCase{Route: routes[rapid.IntRange(0, len(routes)-1).Draw(rt, "route")]}
	if rapid.IntRange(0, 99).Draw(rt, "chaotic") < chaoticPct {
		c.HasRaw = true
		c.Raw = fc.genChaoticFormat(rt)
		n := rapid.IntRange(0, 4).Draw(rt, "nargs")
		for i := 0; i < n; i++ {
			if rapid.IntRange(0, 2).Draw(rt, "argint") == 0 {
				c.Args = append(c.Args, &Val{K: "int", I: int64(rapid.IntRange(-3, 12).Draw(rt, "ai"))})
			} else {
				c.Args = append(c.Args, vc.genVal(rt, 0, false))
			}
		}
		return tame(c)
	}
	n := rapid.IntRange(0, 4).Draw(rt, "ndirs")
	for i := 0; i < n; i++ {
		if rapid.IntRange(0, 2).Draw(rt, "haslit") > 0 {
			c.Segs = append(c.Segs, Seg{Lit: fc.genLit(rt)})
		}
		d := fc.genDirective(rt)
		c.Segs = append(c.Segs, Seg{Dir: d})
		if d.Width == "*" {
			c.Args = append(c.Args, genStarOperand(rt))
		}
		if d.Prec == ".*" {
			c.Args = append(c.Args, genStarOperand(rt))
		}
		if rapid.IntRange(0, 19).Draw(rt, "missing") == 0 && i == n-1 {
			continue // MISSING
		}
		c.Args = append(c.Args, vc.genVal(rt, 0, false))
	}
	if rapid.IntRange(0, 2).Draw(rt, "taillit") > 0 {
		c.Segs = append(c.Segs, Seg{Lit: fc.genLit(rt)})
	}
	if rapid.IntRange(0, 14).Draw(rt, "extra") == 0 {
		c.Args = append(c.Args, vc.genVal(rt, 0, false)) // EXTRA
	}
	return tame(c)
}

// tame bounds the output size of a case: a width (literal, or an integer
// operand that a '*' may consume) is applied to every element of a byte
// slice or container, so width x elements is kept below ~20 MB by
// shortening long byte slices and big integers. (A matter of run time only.)
func tame(c *FmtCase) *FmtCase {
	w := int64(1)
	f := c.Format()
	num := int64(0)
	for i := 0; i <= len(f); i++ {
		if i < len(f) && f[i] >= '0' && f[i] <= '9' && num < 1e12 {
			num = num*10 + int64(f[i]-'0')
			continue
		}
		if num > w && num <= 10000009 {
			w = num
		}
		num = 0
	}
	elems := int64(1)
	var walk func(v *Val, top bool)
	walk = func(v *Val, top bool) {
		if v == nil {
			return
		}
		switch v.K {
		case "bytes", "nbytes", "sb", "psb":
			elems += int64(len(v.S)) + 64
		}
		if top && c.HasRaw {
			// any integer-like operand may feed a '*'
			for _, x := range []int64{v.I, v.J} {
				if x < 0 {
					x = -x
				}
				if x > w && x <= 1000000 {
					w = x
				}
			}
		}
		elems += int64(len(v.Sub))
		for _, s := range v.Sub {
			walk(s, false)
		}
		for _, op := range v.Ops {
			elems += int64(len(op.S))/8 + 1
			for _, a := range op.Args {
				walk(a, false)
			}
		}
		if v.Pr != nil {
			for _, a := range v.Pr.Args {
				walk(a, false)
			}
		}
	}
	for _, a := range c.Args {
		walk(a, true)
	}
	if w*elems <= 4e6 {
		return c
	}
	// shorten: byte slices to 16 bytes, containers to 3 elements
	var cut func(v *Val)
	cut = func(v *Val) {
		if v == nil {
			return
		}
		switch v.K {
		case "bytes", "nbytes":
			if len(v.S) > 16 {
				v.S, v.T = B("short"), B("shrot")
			}
		}
		if len(v.Sub) > 3 && v.K != "structA" && v.K != "structB" {
			v.Sub = v.Sub[:3]
			if len(v.Keys) > 3 {
				v.Keys = v.Keys[:3]
			}
		}
		for _, s := range v.Sub {
			cut(s)
		}
	}
	for _, a := range c.Args {
		cut(a)
	}
	return c
}

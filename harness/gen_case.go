package verifharness

import (
	"pgregory.net/rapid"
)

// genFmtCase draws a print case: structured (the harness knows which
// operand each directive consumes) or chaotic (byte soup).
func genFmtCase(rt *rapid.T, fc *fmtConfig, vc *valConfig, routes []string, chaoticPct int) *FmtCase {
	c := &FmtCase{Route: routes[rapid.IntRange(0, len(routes)-1).Draw(rt, "route")]}
	if rapid.IntRange(0, 99).Draw(rt, "chaotic") < chaoticPct {
		c.HasRaw = true
		c.Raw = fc.genChaoticFormat(rt)
		n := rapid.IntRange(0, 4).Draw(rt, "nargs")
		for i := 0; i < n; i++ {
			if rapid.IntRange(0, 2).Draw(rt, "argint") == 0 {
				c.Args = append(c.Args, &Val{K: "int", I: int64(rapid.IntRange(-3, 12).Draw(rt, "ai"))})
			} else {
				c.Args = append(c.Args, vc.genVal(rt, 0, false))
			}
		}
		return c
	}
	n := rapid.IntRange(0, 4).Draw(rt, "ndirs")
	for i := 0; i < n; i++ {
		if rapid.IntRange(0, 2).Draw(rt, "haslit") > 0 {
			c.Segs = append(c.Segs, Seg{Lit: fc.genLit(rt)})
		}
		d := fc.genDirective(rt)
		c.Segs = append(c.Segs, Seg{Dir: d})
		if d.Width == "*" {
			c.Args = append(c.Args, genStarOperand(rt))
		}
		if d.Prec == ".*" {
			c.Args = append(c.Args, genStarOperand(rt))
		}
		if rapid.IntRange(0, 19).Draw(rt, "missing") == 0 && i == n-1 {
			continue // MISSING
		}
		c.Args = append(c.Args, vc.genVal(rt, 0, false))
	}
	if rapid.IntRange(0, 2).Draw(rt, "taillit") > 0 {
		c.Segs = append(c.Segs, Seg{Lit: fc.genLit(rt)})
	}
	if rapid.IntRange(0, 14).Draw(rt, "extra") == 0 {
		c.Args = append(c.Args, vc.genVal(rt, 0, false)) // EXTRA
	}
	return c
}

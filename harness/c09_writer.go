package verifharness

// C09 — SafeWriter contract: each payload lands once, in order, on its own side.

import (
	"bytes"
	"fmt"

	"github.com/cockroachdb/redact"
)

// HistSpec is a history of writer ops.
type HistSpec struct {
	Ops  []*Op `json:"ops"`
	Grow int   `json:"grow,omitempty"`
	// Flagged: judge the SafeFormat route under directives with width,
	// precision and flags also for scripts with SafeInt/SafeUint/SafeFloat
	// (known finding KF2; set by its witness only)
	Flagged bool `json:"flagged,omitempty"`
}

func init() {
	register("C09Hist", "C09", func() interface{} { return &HistSpec{} }, func(s interface{}) Result { return checkC09(s.(*HistSpec)) })
}

func hasBufferOnlyOps(ops []*Op) bool {
	for _, op := range ops {
		switch op.K {
		case "MBSetMode", "MBWrite", "MBWriteString", "MBWriteByte", "MBWriteRune", "Grow", "Len", "Cap", "String",
			"RedactableString", "RedactableBytes", "GetMode", "Reset", "TakeS", "TakeB":
			return true
		}
	}
	return false
}

// histClasses classifies a history for the generator histogram and the
// non-trivial rule: >=2 ops of different class, or a payload with marker/LF.
func histClasses(ops []*Op) (nontrivial bool, classes []string) {
	segs, _ := modelOps(ops, 0)
	seen := map[segClass]bool{}
	special := false
	for _, s := range segs {
		seen[s.class] = true
		if s.class != segRaw && (hasMarkerish(s.data) || bytes.IndexByte(s.data, '\n') >= 0) {
			special = true
		}
	}
	if len(seen) >= 2 {
		classes = append(classes, "mixed-classes")
	}
	if special {
		classes = append(classes, "marker-or-LF-payload")
	}
	for i := 1; i < len(segs); i++ {
		if segs[i].class != segs[i-1].class && len(segs[i-1].data) > 0 && tailInvalid(segs[i-1].data) {
			classes = append(classes, "partial-utf8-at-mode-switch")
			break
		}
	}
	for i := 1; i < len(segs); i++ {
		if segs[i].class == segUnsafe && segs[i-1].class == segUnsafe && bytes.IndexByte(segs[i].data, '\n') >= 0 {
			classes = append(classes, "LF-in-later-lazy-write")
			break
		}
	}
	return len(seen) >= 2 || special, classes
}

// checkPrefix judges one observed output against the model of the ops so far.
func checkPrefix(route string, ops []*Op, out []byte) error {
	segs, exact := modelOps(ops, 0)
	return checkAgainst(route, prefixModel{strip: modelStrip(segs), safe: modelSafeText(segs), exact: exact}, out)
}

func checkAgainst(route string, m prefixModel, out []byte) error {
	if !LS(out) {
		return fmt.Errorf("%s: output %s is not well-formed and line-safe", route, q(out))
	}
	if !m.exact {
		return nil
	}
	if got := strip(out); !bytes.Equal(got, m.strip) {
		return fmt.Errorf("%s: output %s stripped is %s, want the payloads in call order %s", route, q(out), q(got), q(m.strip))
	}
	if got := delEnv(out); !bytes.Equal(got, m.safe) {
		return fmt.Errorf("%s: output %s without envelopes is %s, want safe payloads + line feeds of unsafe ones %s", route, q(out), q(got), q(m.safe))
	}
	return nil
}

func runOnSB(ops []*Op, grow int, each func(i int, sb *redact.StringBuilder) error) (out []byte, err error) {
	var sb redact.StringBuilder
	if grow > 0 {
		sb.Grow(grow)
	}
	t := &sbTarget{b: &sb}
	for i, op := range ops {
		runWriterOp(t, i, op, 0, nil)
		if each != nil {
			if err := each(i, &sb); err != nil {
				return nil, err
			}
		}
	}
	return []byte(sb.RedactableString()), nil
}

func runOnMB(ops []*Op, grow int, each func(i int, mb *redact.ManualBuffer) error) (out []byte, err error) {
	var mb redact.ManualBuffer
	if grow > 0 {
		mb.Grow(grow)
	}
	t := &mbTarget{b: &mb}
	for i, op := range ops {
		runWriterOp(t, i, op, 0, nil)
		if each != nil {
			if err := each(i, &mb); err != nil {
				return nil, err
			}
		}
	}
	return []byte(mb.RedactableString()), nil
}

func runOnSprintfn(ops []*Op) []byte {
	return []byte(redact.Sprintfn(func(w redact.SafePrinter) { runWriterOps(&printerTarget{p: w}, ops, 0) }))
}

func runOnSafeFormatter(ops []*Op) []byte {
	return []byte(redact.Sprint(newSafeFmtV(ops, 0)))
}

func checkC09(h *HistSpec) Result {
	ledgerStart()
	res := checkC09Run(h)
	if err := ledgerVerify(); err != nil && res.Err == nil {
		res.Err = err
	}
	return res
}

func checkC09Run(h *HistSpec) Result {
	var res Result
	res.NonTrivial, res.Classes = histClasses(h.Ops)
	fail := func(err error) Result { res.Err = err; return res }

	// every prefix is judged; for histories with bulky payloads (quadratic
	// cost) only the prefixes ending at the first 6, every 8th and the last op
	bulk := 0
	for _, op := range h.Ops {
		bulk += len(op.S)
	}
	models := modelPrefixes(h.Ops, 0)
	skip := func(i int) bool { return bulk > 8192 && i >= 6 && i%8 != 0 && i != len(h.Ops)-1 }
	// StringBuilder
	outSB, err := runOnSB(h.Ops, h.Grow, func(i int, sb *redact.StringBuilder) error {
		if skip(i) {
			return nil
		}
		c := redact.StringBuilder{Buffer: *sb.Buffer.VerifClone()}
		return checkAgainst(fmt.Sprintf("StringBuilder after op %d", i), models[i], []byte(c.RedactableString()))
	})
	if err != nil {
		return fail(err)
	}
	// results read in the middle of the history and looked at after it: they
	// still are what the model says of their prefix
	var held []redact.RedactableString
	if _, err := runOnSB(h.Ops, h.Grow, func(i int, sb *redact.StringBuilder) error {
		held = append(held, sb.RedactableString())
		return nil
	}); err != nil {
		return fail(err)
	}
	for i, r := range held {
		if skip(i) {
			continue
		}
		if err := checkAgainst(fmt.Sprintf("StringBuilder.RedactableString() read after op %d, looked at after op %d", i, len(h.Ops)-1), models[i], []byte(r)); err != nil {
			return fail(err)
		}
	}
	// ManualBuffer: every prefix
	outMB, err := runOnMB(h.Ops, h.Grow, func(i int, mb *redact.ManualBuffer) error {
		if skip(i) {
			return nil
		}
		return checkAgainst(fmt.Sprintf("ManualBuffer after op %d", i), models[i], []byte(mb.VerifClone().RedactableString()))
	})
	if err != nil {
		return fail(err)
	}
	_, exact := modelOps(h.Ops, 0)
	if exact && !bytes.Equal(normE(outSB), normE(outMB)) {
		return fail(fmt.Errorf("StringBuilder gives %s, ManualBuffer gives %s", q(outSB), q(outMB)))
	}
	if hasBufferOnlyOps(h.Ops) {
		res.Classes = append(res.Classes, "buffer-level-ops")
		return res
	}
	// printer routes
	outFn := runOnSprintfn(h.Ops)
	if err := checkPrefix("Sprintfn", h.Ops, outFn); err != nil {
		return fail(err)
	}
	outSF := runOnSafeFormatter(h.Ops)
	if err := checkPrefix("SafeFormat method under Sprint", h.Ops, outSF); err != nil {
		return fail(err)
	}
	// StringWithoutMarkers: the String() twin of a SafeFormat method
	if got := redact.StringWithoutMarkers(newSafeFmtV(h.Ops, 0)); got != string(strip(outSF)) {
		return fail(fmt.Errorf("StringWithoutMarkers gives %s, Sprint stripped gives %s", qs(got), q(strip(outSF))))
	}
	// the flags of %+v and %#v are not handed to the safe methods: the
	// payloads land unchanged under these directives too
	if exact {
		ds := []string{"%+v", "%#v"}
		if flagInsensitive(h.Ops) || h.Flagged {
			ds = append(ds, "%8v", "%-6.1v", "%08.3v", "% x", "%q")
		} else if knownOpen("KF2") {
			// known finding KF2: SafeInt, SafeUint and SafeFloat use the width,
			// precision and flags of the directive that reached the method
			col.Excluded("KF2: SafeInt/SafeUint/SafeFloat under a flagged directive")
		} else {
			ds = append(ds, "%8v", "%-6.1v", "%08.3v", "% x", "%q")
		}
		for _, d := range ds {
			o := []byte(redact.Sprintf(d, newSafeFmtV(h.Ops, 0)))
			if err := checkPrefix("SafeFormat method under "+d, h.Ops, o); err != nil {
				return fail(err)
			}
		}
	}
	if exact {
		if !bytes.Equal(normE(outSB), normE(outFn)) {
			return fail(fmt.Errorf("StringBuilder gives %s, Sprintfn gives %s", q(outSB), q(outFn)))
		}
		if !bytes.Equal(normE(outFn), normE(outSF)) {
			return fail(fmt.Errorf("Sprintfn gives %s, SafeFormat under Sprint gives %s", q(outFn), q(outSF)))
		}
	}
	return res
}

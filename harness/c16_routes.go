package verifharness

// C16 — all entry points agree on what a given argument list prints as.

import (
	"bytes"
	"fmt"
	"io"

	"github.com/cockroachdb/redact"
)

type C16Spec struct {
	Case   *FmtCase `json:"case"` // Route: "print" or "printf"
	Prefix []*Op    `json:"prefix"`
	Suffix []*Op    `json:"suffix"`
	Writer int      `json:"writer"`         // 0 ok, 1 fails, 2 short with error, 3 short without error
	Rich   bool     `json:"rich,omitempty"` // the writer also has WriteString, WriteByte, WriteRune and ReadFrom
}

func init() {
	register("C16Routes", "C16", func() interface{} { return &C16Spec{} }, func(s interface{}) Result { return checkC16(s.(*C16Spec)) })
}

func guard(f func()) (panicked bool, pv interface{}) {
	defer func() {
		if r := recover(); r != nil {
			panicked, pv = true, r
		}
	}()
	f()
	return false, nil
}

func checkC16(s *C16Spec) Result {
	var res Result
	c := s.Case
	printf := c.Route == "printf"
	format := c.Format()
	applyConfig(c.Reg, c.HasHook, c.Hook)
	defer resetConfig()
	var args []interface{}
	if p, _ := guard(func() { args = BuildAll(c.Args, 0) }); p {
		res.Classes = append(res.Classes, "build-panicked")
		return res
	}
	// reference: the S variant
	var ref []byte
	refPanicked, _ := guard(func() {
		if printf {
			ref = []byte(redact.Sprintf(format, args...))
		} else {
			ref = []byte(redact.Sprint(args...))
		}
	})
	fail := func(f string, a ...interface{}) Result {
		res.Err = fmt.Errorf("args of %s(%s): %s", c.Route, qs(format), fmt.Sprintf(f, a...))
		return res
	}
	// F variant: one Write, same bytes, (n, err) from the writer
	w := &recWriter{mode: s.Writer}
	var dst io.Writer = w
	var rich *richWriter
	if s.Rich {
		rich = &richWriter{recWriter: w}
		dst = rich
	}
	var n int
	var err error
	fPanicked, _ := guard(func() {
		if printf {
			n, err = redact.Fprintf(dst, format, args...)
		} else {
			n, err = redact.Fprint(dst, args...)
		}
	})
	if rich != nil {
		res.Classes = append(res.Classes, "writer-with-optional-methods")
		if len(rich.others) != 0 {
			return fail("F variant used %v of its writer, want one Write and nothing else", rich.others)
		}
	}
	if fPanicked != refPanicked {
		return fail("S variant panicked=%v, F variant panicked=%v", refPanicked, fPanicked)
	}
	if refPanicked {
		res.Classes = append(res.Classes, "panic-propagates")
		return res
	}
	if len(w.calls) != 1 {
		return fail("F variant made %d Write calls, want exactly one", len(w.calls))
	}
	if !bytes.Equal(w.calls[0], ref) {
		return fail("F variant wrote %s, S variant returned %s", q(w.calls[0]), q(ref))
	}
	switch s.Writer {
	case 0:
		if n != len(ref) || err != nil {
			return fail("F variant returned (%d, %v), want (%d, nil)", n, err, len(ref))
		}
	case 1:
		if n != 0 || err != errWriterFailed {
			return fail("F variant returned (%d, %v), the writer returned (0, %v)", n, err, errWriterFailed)
		}
	case 2:
		if n != len(ref)/2 || err != io.ErrShortWrite {
			return fail("F variant returned (%d, %v), the writer returned (%d, %v)", n, err, len(ref)/2, io.ErrShortWrite)
		}
	case 3:
		if n != len(ref)/2 || err != nil {
			return fail("F variant returned (%d, %v), the writer returned (%d, nil)", n, err, len(ref)/2)
		}
	}
	res.Classes = append(res.Classes, fmt.Sprintf("writer:%d", s.Writer))

	// the package's own builders as the destination of the F variant: they
	// are io.Writers like any other (one Write of the finished text), and what
	// arrives through a builder's io.Writer side is unsafe
	{
		var sb, want redact.StringBuilder
		var mb redact.ManualBuffer
		want.UnsafeString(string(ref))
		var n1, n2 int
		var e1, e2 error
		if p, pv := guard(func() {
			if printf {
				n1, e1 = redact.Fprintf(&sb, format, args...)
				n2, e2 = redact.Fprintf(&mb, format, args...)
			} else {
				n1, e1 = redact.Fprint(&sb, args...)
				n2, e2 = redact.Fprint(&mb, args...)
			}
		}); p {
			return fail("F variant onto a StringBuilder / ManualBuffer panicked (%v), the S variant did not", pv)
		}
		if n1 != len(ref) || e1 != nil || n2 != len(ref) || e2 != nil {
			return fail("F variant onto a StringBuilder returned (%d, %v), onto a ManualBuffer (%d, %v), want (%d, nil)", n1, e1, n2, e2, len(ref))
		}
		if got := sb.RedactableString(); got != want.RedactableString() {
			return fail("F variant onto a StringBuilder leaves %s in it; the text %s written to its io.Writer side is %s", qs(string(got)), q(ref), qs(string(want.RedactableString())))
		}
		if got := mb.RedactableString(); got != want.RedactableString() {
			return fail("F variant onto a ManualBuffer (initial mode: unsafe) leaves %s in it, want %s", qs(string(got)), qs(string(want.RedactableString())))
		}
	}

	// HelperForErrorf without %w: same text
	if printf && !bytes.Contains([]byte(format), []byte("w")) {
		var ht redact.RedactableString
		var herr error
		if p, _ := guard(func() { ht, herr = redact.HelperForErrorf(format, args...) }); p {
			return fail("HelperForErrorf panicked, Sprintf did not")
		}
		if string(ht) != string(ref) || herr != nil {
			return fail("HelperForErrorf returned (%s, %v), Sprintf %s", qs(string(ht)), herr, q(ref))
		}
	}

	// embedded routes
	callOp := &compiled{op: &Op{K: "Print"}, args: args}
	if printf {
		callOp = &compiled{op: &Op{K: "Printf", S: B(format)}, args: args}
	}
	pre, suf := compileOps(s.Prefix, 0), compileOps(s.Suffix, 0)
	whole := append(append(append([]*compiled(nil), pre...), callOp), suf...)
	type route struct {
		name string
		run  func(ops []*compiled) []byte
	}
	routes := []route{
		{"StringBuilder", func(ops []*compiled) []byte {
			var sb redact.StringBuilder
			runCompiled(&sbTarget{b: &sb}, ops, 0, nil)
			return []byte(sb.RedactableString())
		}},
		{"SafePrinter in Sprintfn", func(ops []*compiled) []byte {
			return []byte(redact.Sprintfn(func(p redact.SafePrinter) { runCompiled(&printerTarget{p: p}, ops, 0, nil) }))
		}},
		{"SafePrinter in a SafeFormat method", func(ops []*compiled) []byte {
			return []byte(redact.Sprint(SafeFmtV{run: func(p redact.SafePrinter, verb rune) { runCompiled(&printerTarget{p: p, verb: verb}, ops, 0, nil) }}))
		}},
	}
	// the directive that reaches a SafeFormat method is not its nested calls'
	// business: Print / Printf format with their own flags (the Safe* methods
	// for numbers do use the active width and flags: only scripts without them)
	if flagInsensitive(s.Prefix) && flagInsensitive(s.Suffix) {
		for _, d := range []string{"%8v", "%-6.1v", "%#v", "%+v", "%08.3v", "% x", "%q"} {
			d := d
			routes = append(routes, route{"SafePrinter in a SafeFormat method under " + d, func(ops []*compiled) []byte {
				return []byte(redact.Sprintf(d, SafeFmtV{run: func(p redact.SafePrinter, verb rune) { runCompiled(&printerTarget{p: p, verb: verb}, ops, 0, nil) }}))
			}})
		}
		res.Classes = append(res.Classes, "under-flagged-directives")
	}
	// is the outer buffer in an interesting state after the prefix?
	var probe redact.StringBuilder
	runCompiled(&sbTarget{b: &probe}, pre, 0, nil)
	st := probe.Buffer.VerifState()
	interesting := st.MarkerOpen || st.ValidUntil < st.Len
	if interesting {
		res.Classes = append(res.Classes, "outer-envelope-open-or-pending")
	}
	nonBasic := len(c.Args) >= 2
	for _, a := range c.Args {
		if !isBasicKind(a.K) {
			nonBasic = true
		}
	}
	res.NonTrivial = nonBasic && interesting

	for _, r := range routes {
		var out, po, so []byte
		if p, pv := guard(func() { out = r.run(whole) }); p {
			return fail("route %s panicked (%v), Sprint did not", r.name, pv)
		}
		guard(func() { po = r.run(pre) })
		guard(func() { so = r.run(suf) })
		want := append(append(append([]byte(nil), po...), ref...), so...)
		if !bytes.Equal(normE(out), normE(want)) {
			return fail("route %s (between %d prefix and %d suffix ops) gives %s; prefix alone %s + S variant %s + suffix alone %s", r.name, len(pre), len(suf), q(out), q(po), q(ref), q(so))
		}
	}
	return res
}

// flagInsensitive: no op of the script formats a number with the flags of
// the directive that reached the SafeFormat method.
func flagInsensitive(ops []*Op) bool {
	for _, op := range ops {
		switch op.K {
		case "SafeInt", "SafeUint", "SafeFloat", "State", "Fwd":
			return false
		}
	}
	return true
}

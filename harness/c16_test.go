package verifharness

import (
	"testing"

	"pgregory.net/rapid"
)

func genC16(rt *rapid.T) *C16Spec {
	fc := &fmtConfig{}
	vc := &valConfig{maxDepth: 2}
	c := genFmtCase(rt, fc, vc, []string{"print", "printf", "printf"}, 30)
	if rapid.IntRange(0, 19).Draw(rt, "allredactable") == 7 {
		// only redactable operands (strings and byte slices mixed)
		c = &FmtCase{Route: "print"}
		for i := rapid.IntRange(2, 4).Draw(rt, "nred"); i > 0; i-- {
			c.Args = append(c.Args, &Val{K: pick(rt, "redk", []string{"rs", "rb", "rb"}), Pr: vc.genPrintSpec(rt, 1, false)})
		}
	}
	for _, k := range regKindsAll {
		if rapid.IntRange(0, 3).Draw(rt, "reg") == 0 {
			c.Reg = append(c.Reg, k)
		}
	}
	if rapid.IntRange(0, 4).Draw(rt, "hook") == 0 {
		c.HasHook = true
		c.Hook = genHookScript(rt, vc)
	}
	oc := &opConfig{ioSide: true, prints: true, maxTok: 3}
	s := &C16Spec{Case: c, Writer: rapid.IntRange(0, 3).Draw(rt, "writer"), Rich: rapid.Bool().Draw(rt, "richwriter")}
	s.Prefix = genHistory(rt, oc, 5)
	s.Suffix = genHistory(rt, oc, 4)
	return s
}

func TestC16Routes(t *testing.T) {
	rapidCheck(t, "C16Routes", func(rt *rapid.T) interface{} { return genC16(rt) })
}

package verifharness

// C05 — exactly the unsafe arguments are enveloped; declared-safe data stays visible.
//
// The expected texts come from fmt's own rendering of the same shape in
// which every leaf is wrapped in an "extent wrapper": a fmt.Formatter that
// writes a sentinel, forwards the active directive to the leaf with the
// standard library's fmt.FormatString, and writes a closing sentinel. The
// sentinel regions give the exact extent of every leaf inside fmt's
// rendering of literals and containers.

import (
	"bytes"
	"fmt"
	"io"
	"reflect"

	"github.com/cockroachdb/redact"
)

func init() {
	register("C05Extents", "C05", func() interface{} { return &FmtCase{} }, func(s interface{}) Result { return checkC05(s.(*FmtCase)) })
	register("C05Join", "C05", func() interface{} { return &C05Join{} }, func(s interface{}) Result { return checkC05Join(s.(*C05Join)) })
}

// C05Join: JoinTo over a slice / array of values of a given static type.
type C05Join struct {
	Shape string   `json:"shape"` // strings, ifaces, ints, regstrs, nstrs, array, errors
	Items []*Val   `json:"items"`
	Delim *PrintS  `json:"delim"`
	Pre   []*Op    `json:"pre,omitempty"` // what the destination holds before
	Reg   []string `json:"reg,omitempty"`
}

// checkC05Join: JoinTo writes each element like Print does (so that what is
// safe - by type, by registration - stays visible and everything else is
// enveloped), with the delimiter in between.
func checkC05Join(s *C05Join) Result {
	var res Result
	applyConfig(s.Reg, false, nil)
	defer resetConfig()
	b := &builder{}
	var delim redact.RedactableString
	if p, _ := guard(func() { delim = b.print(s.Delim) }); p {
		return res // (a propagating nested panic while the delimiter is made)
	}
	var values interface{}
	var elems []interface{}
	switch s.Shape {
	case "strings", "regstrs", "nstrs", "array", "errors":
		var ss []string
		for _, it := range s.Items {
			ss = append(ss, it.str(0))
		}
		switch s.Shape {
		case "strings":
			values = ss
			for _, x := range ss {
				elems = append(elems, x)
			}
		case "regstrs":
			var v []RegStr
			for _, x := range ss {
				v = append(v, RegStr(x))
				elems = append(elems, RegStr(x))
			}
			values = v
		case "nstrs":
			var v []NStr
			for _, x := range ss {
				v = append(v, NStr(x))
				elems = append(elems, NStr(x))
			}
			values = v
		case "array":
			var v [2]string
			for i := 0; i < 2 && i < len(ss); i++ {
				v[i] = ss[i]
			}
			values = v
			// (not a slice: JoinTo prints the value as a whole)
			elems = []interface{}{v}
		case "errors":
			var v []error
			for _, x := range ss {
				v = append(v, StrErr(x))
				elems = append(elems, StrErr(x))
			}
			values = v
		}
	case "ints":
		var v []int
		for _, it := range s.Items {
			v = append(v, int(it.int(0)))
			elems = append(elems, int(it.int(0)))
		}
		values = v
	default:
		var v []interface{}
		if p, _ := guard(func() { v = BuildAll(s.Items, 0) }); p {
			return res
		}
		values, elems = v, v
	}
	res.NonTrivial = len(elems) >= 2 && len(s.Reg) > 0
	res.Classes = append(res.Classes, "shape:"+s.Shape)
	for _, k := range s.Reg {
		if k == "str" || k == "int" {
			res.Classes = append(res.Classes, "builtin-registered:"+k)
		}
	}
	pre := compileOps(s.Pre, 0)
	run := func(join bool, t func(f func(w redact.SafeWriter, tg target)) []byte) ([]byte, bool) {
		var out []byte
		p, _ := guard(func() {
			out = t(func(w redact.SafeWriter, tg target) {
				runCompiled(tg, pre, 0, nil)
				if join {
					redact.JoinTo(w, delim, values)
					return
				}
				for i, e := range elems {
					if i > 0 {
						w.Print(delim)
					}
					w.Print(e)
				}
			})
		})
		return out, p
	}
	onSB := func(f func(w redact.SafeWriter, tg target)) []byte {
		var sb redact.StringBuilder
		f(&sb, &sbTarget{b: &sb})
		return []byte(sb.RedactableString())
	}
	onPrinter := func(f func(w redact.SafeWriter, tg target)) []byte {
		return []byte(redact.Sprintfn(func(p redact.SafePrinter) { f(p, &printerTarget{p: p}) }))
	}
	for _, dst := range []struct {
		name string
		t    func(f func(w redact.SafeWriter, tg target)) []byte
	}{{"StringBuilder", onSB}, {"SafePrinter in Sprintfn", onPrinter}} {
		got, p1 := run(true, dst.t)
		want, p2 := run(false, dst.t)
		if p1 != p2 {
			res.Err = fmt.Errorf("JoinTo(%s, %s, %s of %d): panicked=%v, printing the elements one by one panicked=%v", dst.name, qs(string(delim)), s.Shape, len(elems), p1, p2)
			return res
		}
		if p1 {
			res.Classes = append(res.Classes, "panic-propagates")
			continue
		}
		if !bytes.Equal(normE(got), normE(want)) {
			res.Err = fmt.Errorf("JoinTo(%s, %s, %s of %d) gives %s; Print of each element with the delimiter in between gives %s", dst.name, qs(string(delim)), s.Shape, len(elems), q(got), q(want))
			return res
		}
	}
	return res
}

// StructI has only interface-typed exported fields, so that every field can
// hold an extent wrapper in the fmt run.
type StructI struct {
	A interface{}
	B interface{}
}

type extentWrap struct {
	x    interface{}
	safe bool
}

func (e extentWrap) Format(st fmt.State, verb rune) {
	if e.safe {
		io.WriteString(st, sentS)
	} else {
		io.WriteString(st, sentU)
	}
	fmt.Fprintf(st, fmt.FormatString(st, verb), e.x)
	io.WriteString(st, sentE)
}

// sfStandIn renders the segments of a SafeFormatter's script with sentinels.
type sfStandIn struct{ segs []segment }

func (s sfStandIn) Format(st fmt.State, verb rune) {
	for _, sg := range s.segs {
		if sg.class == segSafe {
			io.WriteString(st, sentS)
		} else {
			io.WriteString(st, sentU)
		}
		st.Write(sg.data)
		io.WriteString(st, sentE)
	}
}

// declaredSafe: the leaf kind is declared safe under the configuration.
func declaredSafe(k string, reg map[string]bool) bool {
	switch k {
	case "SafeString", "SafeInt", "SafeUint", "SafeFloat", "SafeRune", "svstr", "svint", "svfloat", "svsstringer", "safe", "svmap", "svslice", "SafeBytes", "embsafe":
		return true
	}
	if k == "pregstruct" {
		return reg["regstruct"]
	}
	return reg[k]
}

// toFmtShape builds the operand for the fmt run (leaves wrapped) together
// with the operand for redact (same leaf objects).
func toFmtShape(v *Val, reg map[string]bool) (forFmt, forRedact interface{}) {
	switch v.K {
	case "nil":
		return nil, nil
	case "islice":
		a, b := make([]interface{}, len(v.Sub)), make([]interface{}, len(v.Sub))
		for i, s := range v.Sub {
			a[i], b[i] = toFmtShape(s, reg)
		}
		return a, b
	case "iarr2":
		var a, b [2]interface{}
		for i := 0; i < 2 && i < len(v.Sub); i++ {
			a[i], b[i] = toFmtShape(v.Sub[i], reg)
		}
		return a, b
	case "structI":
		var a, b StructI
		if len(v.Sub) > 0 {
			a.A, b.A = toFmtShape(v.Sub[0], reg)
		}
		if len(v.Sub) > 1 {
			a.B, b.B = toFmtShape(v.Sub[1], reg)
		}
		return a, b
	case "mii":
		a, b := map[interface{}]interface{}{}, map[interface{}]interface{}{}
		if len(v.Keys) == 1 && len(v.Sub) == 1 {
			ka, kb := toFmtShape(v.Keys[0], reg)
			va, vb := toFmtShape(v.Sub[0], reg)
			a[ka], b[kb] = va, vb
		}
		return a, b
	case "rvslot":
		// a reflect.Value operand stands for the value it holds, whether it was
		// made from the value or designates an interface-typed slot holding it
		a, b := toFmtShape(v.Sub[0], reg)
		switch v.I {
		case 0:
			return a, reflect.ValueOf(b)
		case 1:
			x := b
			return a, reflect.ValueOf(&x).Elem()
		case 2:
			return a, reflect.ValueOf([]interface{}{b}).Index(0)
		default:
			return a, reflect.ValueOf(StructI{A: b}).Field(0)
		}
	case "safefmt":
		segs, _ := modelOps(v.Ops, 0)
		return sfStandIn{segs: segs}, newSafeFmtV(v.Ops, 0)
	case "safe":
		inner := Build(v.Sub[0], 0)
		return extentWrap{x: inner, safe: true}, redact.Safe(inner)
	case "unsafe":
		inner := Build(v.Sub[0], 0)
		return extentWrap{x: inner, safe: false}, redact.Unsafe(inner)
	}
	x := Build(v, 0)
	return extentWrap{x: x, safe: declaredSafe(v.K, reg)}, x
}

// sentinels: plane-16 private-use runes that no generator produces (not as
// payload, not through %c of a generated integer)
const (
	sent0 = "\U0010FFFC"
	sentS = sent0 + "S"
	sentU = sent0 + "U"
	sentE = "\U0010FFFD"
)

// splitExtents parses fmt's sentinel-marked output into the full text T and
// the text S in which every unsafe extent is reduced to its line feeds.
func splitExtents(b []byte) (T, S []byte, nSafe, nUnsafe int, ok bool) {
	for len(b) > 0 {
		i := bytes.Index(b, []byte(sent0))
		if i < 0 {
			if bytes.Contains(b, []byte(sentE)) {
				return nil, nil, 0, 0, false
			}
			T = append(T, b...)
			S = append(S, b...)
			break
		}
		if bytes.Contains(b[:i], []byte(sentE)) || i+len(sent0)+1 > len(b) {
			return nil, nil, 0, 0, false
		}
		T = append(T, b[:i]...)
		S = append(S, b[:i]...)
		safe := b[i+len(sent0)] == 'S'
		rest := b[i+len(sentS):]
		j := bytes.Index(rest, []byte(sentE))
		if j < 0 || bytes.Contains(rest[:j], []byte(sent0)) {
			return nil, nil, 0, 0, false
		}
		content := rest[:j]
		T = append(T, content...)
		if safe {
			S = append(S, content...)
			nSafe++
		} else {
			S = append(S, lfs(content)...)
			nUnsafe++
		}
		b = rest[j+len(sentE):]
	}
	return T, S, nSafe, nUnsafe, true
}

func checkC05(c *FmtCase) Result {
	var res Result
	format := c.Format()
	reg := map[string]bool{}
	for _, k := range c.Reg {
		reg[k] = true
	}
	applyConfig(c.Reg, false, nil)
	defer resetConfig()
	fa := make([]interface{}, len(c.Args))
	ra := make([]interface{}, len(c.Args))
	for i, a := range c.Args {
		fa[i], ra[i] = toFmtShape(a, reg)
	}
	var marked, out []byte
	if c.isPrintf() {
		marked = []byte(fmt.Sprintf(format, fa...))
		out = callRedact(c.Route, format, ra).out
	} else {
		// Sprint: fmt's separator rule depends on the operand types as
		// redact sees them (the wrapped operands are never strings)
		for i := range fa {
			if i > 0 && !(isStringKind(ra[i]) || isStringKind(ra[i-1])) {
				marked = append(marked, ' ')
			}
			marked = append(marked, fmt.Sprint(fa[i])...)
		}
		out = callRedact(c.Route, "", ra).out
	}
	T, S, nSafe, nUnsafe, ok := splitExtents(marked)
	fail := func(f string, a ...interface{}) Result {
		res.Err = fmt.Errorf("%s(%s, ...): %s", c.Route, qs(format), fmt.Sprintf(f, a...))
		return res
	}
	if !ok {
		return fail("HARNESS: sentinels not balanced in fmt's rendering %s", q(marked))
	}
	nested, flagged := false, false
	for _, a := range c.Args {
		switch a.K {
		case "islice", "iarr2", "structI", "mii":
			nested = true
		}
	}
	for _, s := range c.Segs {
		if s.Dir != nil && (!s.Dir.bare() || string(s.Dir.Verb) != "v") {
			flagged = true
		}
	}
	res.NonTrivial = nSafe > 0 && nUnsafe > 0 && (nested || flagged)
	if nested {
		res.Classes = append(res.Classes, "nested-leaves")
	}
	if flagged {
		res.Classes = append(res.Classes, "flags-or-non-v-verb")
	}
	if len(c.Reg) > 0 {
		res.Classes = append(res.Classes, "registered-types")
	}
	if !WF(out) {
		return fail("output %s not well-formed", q(out))
	}
	if g, w := strip(out), esc(T); !bytes.Equal(g, w) {
		return fail("output %s stripped is %s; fmt prints %s", q(out), q(g), q(w))
	}
	if g, w := delEnv(out), esc(S); !bytes.Equal(g, w) {
		return fail("output %s without envelopes is %s; fmt's text with the unsafe leaves reduced to their line feeds is %s (fmt's full text: %s)", q(out), q(g), q(w), q(T))
	}
	return res
}

func isStringKind(x interface{}) bool {
	return x != nil && reflect.TypeOf(x).Kind() == reflect.String
}

// ---- C05Typed: classification does not depend on the static type of the slot ---

// C05Typed: the same leaves in a container whose slots have the leaves' own
// type and in one whose slots are interface-typed.
type C05Typed struct {
	Shape  string     `json:"shape"` // slice, array, map, struct, pstruct, rvslice, rvro
	Leaves []*Val     `json:"leaves"`
	Dir    *Directive `json:"dir"`
	Reg    []string   `json:"reg,omitempty"`
	Hidden bool       `json:"hidden,omitempty"` // the container sits in an unexported field
	Script []*Op      `json:"script,omitempty"` // shape svfmt: the SafeFormat method's writer primitives
}

func init() {
	register("C05Typed", "C05", func() interface{} { return &C05Typed{} }, func(s interface{}) Result { return checkC05Typed(s.(*C05Typed)) })
}

var ifaceType = reflect.TypeOf((*interface{})(nil)).Elem()

// checkC05Typed: whether a value is safe is a matter of its own type (marker
// method, registration, wrapper), not of how the container holding it
// declares its slots: the typed and the interface-typed container print alike.
func checkC05Typed(s *C05Typed) Result {
	var res Result
	applyConfig(s.Reg, false, nil)
	defer resetConfig()
	if s.Shape == "svfmt" {
		// a value whose type is marked SafeValue and which renders itself
		// through SafeFormat with writer primitives only: its full rendering
		// stays visible, whichever primitive it uses, wherever it sits
		x := SVSafeFmtV{run: (&builder{}).printerScript(s.Script)}
		d := s.Dir.String()
		res.Classes = append(res.Classes, "shape:svfmt")
		res.NonTrivial = len(s.Script) > 0
		type placed struct {
			name string
			arg  interface{}
		}
		for _, pl := range []placed{{"top", x}, {"slice", []interface{}{x, 1}}, {"typed slice", []SVSafeFmtV{x}}, {"field", struct{ X interface{} }{x}},
			{"map", map[redact.SafeString]SVSafeFmtV{"k": x}}} {
			name, arg := pl.name, pl.arg
			r := callRedact("Sprintf", d, []interface{}{arg})
			if r.panicked {
				res.Err = fmt.Errorf("Sprintf(%s, SafeValue-marked SafeFormatter, %s): panicked: %v", qs(d), name, r.panicVal)
				return res
			}
			out := r.out
			if name == "slice" {
				// the sibling 1 is an ordinary unsafe operand: drop the last envelope
				if i := bytes.LastIndex(out, []byte(startS)); i >= 0 {
					out = out[:i]
				}
			}
			if hasMarker(out) {
				res.Err = fmt.Errorf("Sprintf(%s, SafeValue-marked SafeFormatter, %s) prints %s: part of its rendering is enveloped", qs(d), name, q(r.out))
				return res
			}
		}
		return res
	}
	var xs []interface{}
	if p, _ := guard(func() { xs = BuildAll(s.Leaves, 0) }); p || len(xs) < 2 || xs[0] == nil || xs[1] == nil {
		return res
	}
	t0, t1 := reflect.TypeOf(xs[0]), reflect.TypeOf(xs[1])
	v0, v1 := reflect.ValueOf(xs[0]), reflect.ValueOf(xs[1])
	var typed, untyped interface{}
	switch s.Shape {
	case "rvro":
		// a reflect.Value operand of the leaf's own static type that was
		// reached through an unexported field (CanInterface is false), against
		// the leaf itself: for types without methods nothing but the type and
		// the bits decide what is printed
		sl := reflect.MakeSlice(reflect.SliceOf(t0), 1, 1)
		sl.Index(0).Set(v0)
		typed = reflect.ValueOf(StructA{z: sl.Interface()}).Field(2).Elem().Index(0)
		untyped = xs[0]
	case "slice", "rvslice", "array":
		if t0 != t1 {
			return res
		}
		mk := func(et reflect.Type) reflect.Value {
			var c reflect.Value
			if s.Shape == "array" {
				c = reflect.New(reflect.ArrayOf(2, et)).Elem()
			} else {
				c = reflect.MakeSlice(reflect.SliceOf(et), 2, 2)
			}
			c.Index(0).Set(v0)
			c.Index(1).Set(v1)
			return c
		}
		if s.Shape == "rvslice" {
			typed, untyped = mk(t0), mk(ifaceType) // reflect.Value operands
		} else {
			typed, untyped = mk(t0).Interface(), mk(ifaceType).Interface()
		}
	case "map":
		if !t0.Comparable() {
			return res
		}
		mk := func(kt, vt reflect.Type) interface{} {
			m := reflect.MakeMap(reflect.MapOf(kt, vt))
			m.SetMapIndex(v0, v1)
			return m.Interface()
		}
		typed, untyped = mk(t0, t1), mk(ifaceType, ifaceType)
	default: // struct, pstruct
		mk := func(a, b reflect.Type) interface{} {
			st := reflect.StructOf([]reflect.StructField{{Name: "A", Type: a}, {Name: "B", Type: b}, {Name: "N", Type: reflect.TypeOf(0)}})
			p := reflect.New(st)
			p.Elem().Field(0).Set(v0)
			p.Elem().Field(1).Set(v1)
			if s.Shape == "pstruct" {
				return p.Interface()
			}
			return p.Elem().Interface()
		}
		typed, untyped = mk(t0, t1), mk(ifaceType, ifaceType)
	}
	if s.Hidden && s.Shape != "rvro" && s.Shape != "rvslice" && s.Shape != "pstruct" { // (a nested pointer prints its address)
		// both containers behind an unexported field: nothing inside can be
		// boxed, so only types and bits decide (methods and SafeValue markers
		// are out of reach in both shapes alike)
		typed, untyped = StructA{z: typed}, StructA{z: untyped}
		res.Classes = append(res.Classes, "hidden")
	}
	res.Classes = append(res.Classes, "shape:"+s.Shape, "elem:"+s.Leaves[0].K)
	res.NonTrivial = declaredSafe(s.Leaves[0].K, regMap(s.Reg)) || declaredSafe(s.Leaves[1].K, regMap(s.Reg))
	d := s.Dir.String()
	a := callRedact("Sprintf", d, []interface{}{typed})
	b := callRedact("Sprintf", d, []interface{}{untyped})
	if a.panicked || b.panicked {
		if a.panicked != b.panicked {
			res.Err = fmt.Errorf("Sprintf(%s, %s of %s): panicked=%v with typed slots, %v with interface-typed slots", qs(d), s.Shape, s.Leaves[0].K, a.panicked, b.panicked)
		}
		return res
	}
	if !bytes.Equal(a.out, b.out) {
		res.Err = fmt.Errorf("Sprintf(%s, %s of %s/%s): %s with slots of the values' own types, %s with interface-typed slots", qs(d), s.Shape, s.Leaves[0].K, s.Leaves[1].K, q(a.out), q(b.out))
	}
	return res
}

func regMap(reg []string) map[string]bool {
	m := map[string]bool{}
	for _, k := range reg {
		m[k] = true
	}
	return m
}

package verifharness

import (
	"testing"

	"pgregory.net/rapid"
)

var c08StepKinds = []string{"Sprint", "SprintBytes", "Sprintf", "Sprintf", "Sprintf", "SprintfBytes", "Reflect", "ReflectField", "ReflectIfaceField", "Safe", "Iface", "Concat", "Concat",
	"Join", "Join1", "JoinToSB", "JoinToPrinter", "JoinBytesToSB", "JoinSBsToPrinter", "SBPrint", "SBSnapshot", "SBPrintf", "PrintSB", "PrintPSB", "PrinterPrint", "PrinterPrintf",
	"Slice", "Array", "ISlice", "Map", "IMap", "MapNaN", "MapArrKey", "MapMulti", "Struct", "StructPlus", "PStruct", "StructIface", "SharpV"}

func genC08(rt *rapid.T) *C08Spec {
	vc := &valConfig{maxDepth: 1, noPointers: true}
	fc := &fmtConfig{noTp: true, noHugeNumbers: true}
	s := &C08Spec{R0: vc.genPrintSpec(rt, 1, false)}
	n := rapid.IntRange(1, 6).Draw(rt, "depth")
	for i := 0; i < n; i++ {
		st := &C08Step{K: c08StepKinds[rapid.IntRange(0, len(c08StepKinds)-1).Draw(rt, "step")]}
		switch st.K {
		case "Sprintf", "SprintfBytes", "Reflect", "ReflectField", "ReflectIfaceField", "Safe", "Iface", "SBPrintf", "PrintSB", "PrintPSB", "PrinterPrintf":
			st.Dir = fc.genDirective(rt)
			if (st.K == "PrintSB" || st.K == "PrintPSB") && string(st.Dir.Verb) == "w" {
				st.Dir.Verb = B("v") // a builder is not an error: %w is a bad verb for it
			}
			st.StarW = rapid.IntRange(-5, 12).Draw(rt, "starW")
			st.StarP = rapid.IntRange(0, 9).Draw(rt, "starP") // (a negative one is a BADPREC diagnostic, not a directive)
		}
		switch st.K {
		case "Sprintf", "SprintfBytes", "Concat", "SBPrintf", "PrinterPrintf":
			st.L0, st.L1, st.L2 = genText(rt, "l0", 3), genText(rt, "l1", 3), genText(rt, "l2", 3)
		}
		switch st.K {
		case "Concat", "Join", "JoinToSB", "JoinToPrinter", "JoinBytesToSB", "JoinSBsToPrinter", "Slice", "Array", "ISlice", "MapMulti", "SBSnapshot", "Struct", "StructPlus", "PStruct", "StructIface", "SharpV":
			st.Other = vc.genPrintSpec(rt, 1, false)
		}
		switch st.K {
		case "Join", "Join1", "JoinToSB", "JoinToPrinter", "JoinBytesToSB", "JoinSBsToPrinter":
			if rapid.IntRange(0, 3).Draw(rt, "nodelim") == 0 {
				st.Delim = &PrintS{HasFmt: true, Fmt: B("")} // no delimiter at all
			} else if rapid.Bool().Draw(rt, "safedelim") {
				st.Delim = &PrintS{HasFmt: true, Fmt: B(lit(genText(rt, "delim", 2)))}
			} else {
				st.Delim = vc.genPrintSpec(rt, 1, false)
			}
		}
		s.Steps = append(s.Steps, st)
	}
	return s
}

func TestC08Compose(t *testing.T) {
	rapidCheck(t, "C08Compose", func(rt *rapid.T) interface{} { return genC08(rt) })
}

func TestC08Lines(t *testing.T) {
	conts := [][]byte{{0xBA}, {0xB9}, {0x80, 0xBA}, {0x80, 0xB9, 'x'}, {0xBA, 'S', 'E', 'C'}, []byte("x"), {0xA9}, []byte(endS), []byte("\n\xba")}
	rapidCheck(t, "C08Lines", func(rt *rapid.T) interface{} {
		s := &C08Lines{Route: pick(rt, "route", []string{"Sprintf", "Sprintf", "Sprint", "SB", "SBReuse", "SafeCont", "Lines", "Lines"})}
		// tokens before a line feed that end in a truncated sequence are likely
		n := rapid.IntRange(1, 4).Draw(rt, "nl")
		for i := 0; i < n; i++ {
			s.Payload = append(s.Payload, genBytes(rt, "p", 3)...)
			if rapid.Bool().Draw(rt, "trunc") {
				s.Payload = append(s.Payload, [][]byte{{0xE2}, {0xE2, 0x80}, {0xC3}, {0xF0, 0x9F}}[rapid.IntRange(0, 3).Draw(rt, "tk")]...)
			}
			s.Payload = append(s.Payload, '\n')
		}
		s.Payload = append(s.Payload, genBytes(rt, "tail", 2)...)
		s.Safe = rapid.IntRange(0, 3).Draw(rt, "safe") == 0
		s.Cont = conts[rapid.IntRange(0, len(conts)-1).Draw(rt, "cont")]
		return s
	})
}

package verifharness

// Native coverage-guided fuzz targets (thorough tier). Each target is the
// same property as the rapid test of the same name: rapid.MakeFuzz turns
// the fuzzer's bytes into rapid's draw stream, so the generators (and the
// JSON replay spec of a failure) are shared. Byte-oriented properties also
// get a direct target whose input bytes are the payload itself.

import (
	"encoding/json"
	"testing"

	"pgregory.net/rapid"
)

func fuzzProp(name string, gen func(*rapid.T) interface{}) func(*rapid.T) {
	d := checks[name]
	return func(rt *rapid.T) {
		spec := gen(rt)
		res := d.runSafely(spec)
		if res.Err != nil {
			recordFailure(d, spec, res.Err)
			js, _ := json.Marshal(spec)
			rt.Fatalf("%s: %v\nspec: %s", name, res.Err, js)
		}
	}
}

var hostileSeeds = [][]byte{
	{}, []byte("‹"), []byte("›"), []byte("‹×›"), {0xE2}, {0xE2, 0x80}, {0x80, 0xB9}, []byte("a\n‹b›\n"), []byte("%v %s %d"), []byte("%!v(PANIC="),
	{0xE2, 0x80, 0xB9, 0xE2, 0x80, 0xBA}, []byte("\n\n"), {0xFF, 0xFE}, []byte("\xe2‹\x80\xb9"), []byte("%[2]*.[1]*d"), []byte("%-08.3f|%+q|%#x|% d"),
}

func addSeeds(f *testing.F) {
	for _, s := range hostileSeeds {
		f.Add(s)
	}
	for i := 0; i < 16; i++ {
		b := make([]byte, 64)
		for j := range b {
			b[j] = byte(i*37 + j*11)
		}
		f.Add(b)
	}
}

func FuzzC01(f *testing.F) {
	addSeeds(f)
	f.Fuzz(rapid.MakeFuzz(fuzzProp("C01Fmt", func(rt *rapid.T) interface{} { return genWFCase(rt, false) })))
}

func FuzzC01Hist(f *testing.F) {
	addSeeds(f)
	f.Fuzz(rapid.MakeFuzz(fuzzProp("C01Hist", func(rt *rapid.T) interface{} { return genHistCtx(rt) })))
}

func FuzzC03(f *testing.F) {
	addSeeds(f)
	f.Fuzz(rapid.MakeFuzz(fuzzProp("C03Fmt", func(rt *rapid.T) interface{} { return genWFCase(rt, true) })))
}

func FuzzC04(f *testing.F) {
	addSeeds(f)
	f.Fuzz(rapid.MakeFuzz(fuzzProp("C04Diff", func(rt *rapid.T) interface{} { return genC04(rt) })))
}

func FuzzC02(f *testing.F) {
	addSeeds(f)
	f.Fuzz(rapid.MakeFuzz(fuzzProp("C02Pair", func(rt *rapid.T) interface{} { return genC02(rt) })))
}

func FuzzC09(f *testing.F) {
	addSeeds(f)
	f.Fuzz(rapid.MakeFuzz(fuzzProp("C09Hist", func(rt *rapid.T) interface{} {
		cfg := &opConfig{ioSide: true, prints: true, maxTok: 5, mb: true}
		cfg.bytesAlpha = rapid.Bool().Draw(rt, "bytes")
		return &HistSpec{Ops: genHistory(rt, cfg, 40)}
	})))
}

// direct byte targets: the input is the payload
func FuzzC10Bytes(f *testing.F) {
	addSeeds(f)
	d := checks["C10Escape"]
	f.Fuzz(func(t *testing.T, b []byte) {
		for _, st := range []int{-1, 0, len(b) / 2, len(b)} {
			for _, br := range []bool{false, true} {
				spec := &EscSpec{In: append(B(nil), b...), Start: st, Break: br}
				if res := d.runSafely(spec); res.Err != nil {
					recordFailure(d, spec, res.Err)
					t.Fatalf("C10Escape: %v", res.Err)
				}
			}
		}
	})
}

func FuzzC07Bytes(f *testing.F) {
	addSeeds(f)
	d := checks["C07Laws"]
	f.Fuzz(func(t *testing.T, b []byte) {
		spec := &RStr{S: append(B(nil), b...)}
		if len(b) > 2 {
			spec.S, spec.S2 = append(B(nil), b[:len(b)/2]...), append(B(nil), b[len(b)/2:]...)
		}
		if res := d.runSafely(spec); res.Err != nil {
			recordFailure(d, spec, res.Err)
			t.Fatalf("C07Laws: %v", res.Err)
		}
	})
}

// rapid-generator targets for the remaining properties (same generators and
// oracles as the rapid tests; the fuzzer's coverage feedback steers the draw
// stream instead of rapid's own bias).
func fuzzVia(f *testing.F, name string, gen func(*rapid.T) interface{}) {
	addSeeds(f)
	f.Fuzz(rapid.MakeFuzz(fuzzProp(name, gen)))
}

func FuzzC05(f *testing.F) {
	fuzzVia(f, "C05Extents", func(rt *rapid.T) interface{} { return genC05(rt) })
}
func FuzzC05Typed(f *testing.F) {
	fuzzVia(f, "C05Typed", func(rt *rapid.T) interface{} { return genC05Typed(rt) })
}
func FuzzC06(f *testing.F) {
	fuzzVia(f, "C06Wrap", func(rt *rapid.T) interface{} { return genC06(rt) })
}
func FuzzC08(f *testing.F) {
	fuzzVia(f, "C08Compose", func(rt *rapid.T) interface{} { return genC08(rt) })
}
func FuzzC11Panic(f *testing.F) {
	fuzzVia(f, "C11Panic", func(rt *rapid.T) interface{} { return genPanicSpec(rt) })
}
func FuzzC11Edge(f *testing.F) {
	fuzzVia(f, "C11Edge", func(rt *rapid.T) interface{} { return genEdge(rt) })
}
func FuzzC12(f *testing.F) {
	fuzzVia(f, "C12Hist", func(rt *rapid.T) interface{} { return genC12Hist(rt) })
}
func FuzzC13(f *testing.F) {
	fuzzVia(f, "C13Acc", func(rt *rapid.T) interface{} { return genC13(rt) })
}
func FuzzC15(f *testing.F) {
	fuzzVia(f, "C15Errorf", func(rt *rapid.T) interface{} { return genC15(rt) })
}
func FuzzC16(f *testing.F) {
	fuzzVia(f, "C16Routes", func(rt *rapid.T) interface{} { return genC16(rt) })
}
func FuzzC17(f *testing.F) {
	fuzzVia(f, "C17Hook", func(rt *rapid.T) interface{} { return genC17(rt) })
}

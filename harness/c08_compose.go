package verifharness

// C08 — redactables compose: re-printing is identity, joining is concatenation.

import (
	"bytes"
	"fmt"
	"math"
	"reflect"
	"strings"

	"github.com/cockroachdb/redact"
)

type C08Step struct {
	K     string     `json:"k"`
	Dir   *Directive `json:"dir,omitempty"`
	StarW int        `json:"starW,omitempty"`
	StarP int        `json:"starP,omitempty"`
	L0    B          `json:"l0,omitempty"`
	L1    B          `json:"l1,omitempty"`
	L2    B          `json:"l2,omitempty"`
	Other *PrintS    `json:"other,omitempty"`
	Delim *PrintS    `json:"delim,omitempty"`
}

type C08Spec struct {
	R0    *PrintS    `json:"r0"`
	Steps []*C08Step `json:"steps"`
}

func init() {
	register("C08Compose", "C08", func() interface{} { return &C08Spec{} }, func(s interface{}) Result { return checkC08(s.(*C08Spec)) })
}

type rs = redact.RedactableString

func (st *C08Step) dirArgs(x interface{}) (string, []interface{}) {
	d := "%v"
	var a []interface{}
	if st.Dir != nil {
		d = st.Dir.String()
		if st.Dir.Width == "*" {
			a = append(a, st.StarW)
		}
		if st.Dir.Prec == ".*" {
			a = append(a, st.StarP)
		}
	}
	return d, append(a, x)
}

func lit(b []byte) string { return strings.ReplaceAll(string(b), "%", "%%") }

// applyStep returns the result of the step and what the laws say it must be.
func applyStep(st *C08Step, r rs, b *builder) (got rs, pieces []rs, err error) {
	other := b.print(st.Other)
	delim := b.print(st.Delim)
	d, args := st.dirArgs(nil)
	switch st.K {
	case "Sprint":
		return redact.Sprint(r), []rs{r}, nil
	case "SprintBytes":
		return redact.Sprint(r.ToBytes()), []rs{r}, nil
	case "Sprintf":
		args[len(args)-1] = r
		return redact.Sprintf(lit(st.L0)+d+lit(st.L1), args...), []rs{rs(esc(st.L0)), r, rs(esc(st.L1))}, nil
	case "SprintfBytes":
		args[len(args)-1] = r.ToBytes()
		return redact.Sprintf(lit(st.L0)+d+lit(st.L1), args...), []rs{rs(esc(st.L0)), r, rs(esc(st.L1))}, nil
	case "Reflect":
		args[len(args)-1] = reflect.ValueOf(r)
		return redact.Sprintf(d, args...), []rs{r}, nil
	case "ReflectField":
		// a reflect.Value obtained from an unexported field
		args[len(args)-1] = reflect.ValueOf(StructB{r: r}).Field(4)
		return redact.Sprintf(d, args...), []rs{r}, nil
	case "ReflectIfaceField":
		args[len(args)-1] = reflect.ValueOf(StructA{z: r}).Field(2)
		return redact.Sprintf(d, args...), []rs{r}, nil
	case "Safe":
		args[len(args)-1] = redact.Safe(r)
		return redact.Sprintf(d, args...), []rs{r}, nil
	case "Iface":
		var i interface{} = r
		args[len(args)-1] = &i
		_ = i
		args[len(args)-1] = []interface{}{r}[0]
		return redact.Sprintf(d, args...), []rs{r}, nil
	case "Concat":
		return redact.Sprintf(lit(st.L0)+"%v"+lit(st.L1)+"%s"+lit(st.L2), r, other),
			[]rs{rs(esc(st.L0)), r, rs(esc(st.L1)), other, rs(esc(st.L2))}, nil
	case "Join":
		return redact.Join(delim, []rs{r, other, r}), []rs{r, delim, other, delim, r}, nil
	case "Join1":
		return redact.Join(delim, []rs{r}), []rs{r}, nil
	case "JoinToSB":
		var sb redact.StringBuilder
		redact.JoinTo(&sb, delim, []rs{r, other})
		return sb.RedactableString(), []rs{r, delim, other}, nil
	case "JoinBytesToSB":
		// elements that are redactable but not of string kind: byte slices
		var sb redact.StringBuilder
		redact.JoinTo(&sb, delim, []redact.RedactableBytes{r.ToBytes(), other.ToBytes(), r.ToBytes()})
		return sb.RedactableString(), []rs{r, delim, other, delim, r}, nil
	case "JoinSBsToPrinter":
		// ... and builders, by value and by pointer
		var b1, b2 redact.StringBuilder
		b1.Print(other)
		b2.Print(r)
		return redact.Sprintfn(func(w redact.SafePrinter) { redact.JoinTo(w, delim, []interface{}{b1, &b2, r.ToBytes()}) }), []rs{other, delim, r, delim, r}, nil
	case "JoinToPrinter":
		return redact.Sprintfn(func(w redact.SafePrinter) { redact.JoinTo(w, delim, []rs{other, r}) }), []rs{other, delim, r}, nil
	case "SBPrint":
		var sb redact.StringBuilder
		sb.Print(r)
		return sb.RedactableString(), []rs{r}, nil
	case "SBSnapshot":
		// a composition read from a builder that stays in use: it remains
		// what it was (later steps reproduce it)
		var sb redact.StringBuilder
		sb.Print(r)
		snap := sb.RedactableString()
		sb.UnsafeString("later\n" + startS)
		sb.Print(other)
		sb.Reset()
		sb.SafeString("0123456789012345678901234567890123456789")
		return snap, []rs{r}, nil
	case "SBPrintf":
		var sb redact.StringBuilder
		args[len(args)-1] = r
		sb.Printf(lit(st.L0)+d+lit(st.L1), args...)
		return rs(sb.RedactableBytes()), []rs{rs(esc(st.L0)), r, rs(esc(st.L1))}, nil
	case "PrintSB":
		var sb redact.StringBuilder
		sb.Print(r)
		args[len(args)-1] = sb
		return redact.Sprintf(d, args...), []rs{r}, nil
	case "PrintPSB":
		var sb redact.StringBuilder
		sb.Print(r)
		args[len(args)-1] = &sb
		return redact.Sprintf(d, args...), []rs{r}, nil
	case "PrinterPrint":
		return redact.Sprintfn(func(w redact.SafePrinter) { w.Print(r) }), []rs{r}, nil
	case "PrinterPrintf":
		args[len(args)-1] = r
		return redact.Sprintfn(func(w redact.SafePrinter) { w.Printf(lit(st.L0)+d+lit(st.L1), args...) }), []rs{rs(esc(st.L0)), r, rs(esc(st.L1))}, nil
	// containers, bare %v / %+v: hand model of fmt's brackets
	case "Slice":
		return redact.Sprint([]rs{r, other}), []rs{"[", r, " ", other, "]"}, nil
	case "Array":
		return redact.Sprintf("%v", [2]rs{other, r}), []rs{"[", other, " ", r, "]"}, nil
	case "ISlice":
		return redact.Sprintf("%s", []interface{}{r, other.ToBytes()}), []rs{"[", r, " ", other, "]"}, nil
	case "Map":
		return redact.Sprint(map[string]rs{"k": r}), []rs{"map[" + startS + "k" + endS + ":", r, "]"}, nil
	case "MapNaN":
		// (a key that is not equal to itself: the entry cannot be looked up again)
		return redact.Sprint(map[float64]rs{math.NaN(): r}), []rs{"map[" + startS + "NaN" + endS + ":", r, "]"}, nil
	case "MapArrKey":
		return redact.Sprint(map[interface{}]interface{}{[2]float64{math.NaN(), 1}: r}), []rs{"map[[" + startS + "NaN" + endS + " " + startS + "1" + endS + "]:", r, "]"}, nil
	case "MapMulti":
		return redact.Sprint(map[int]rs{2: other, 1: r, 3: r}), []rs{"map[" + startS + "1" + endS + ":", r, " " + startS + "2" + endS + ":", other, " " + startS + "3" + endS + ":", r, "]"}, nil
	case "IMap":
		return redact.Sprint(map[string]interface{}{"k": r}), []rs{"map[" + startS + "k" + endS + ":", r, "]"}, nil
	case "Struct":
		return redact.Sprint(StructB{R: r, r: other}), []rs{"{<nil> [] ", r, "  ", other, "}"}, nil
	case "StructPlus":
		return redact.Sprintf("%+v", StructB{R: r, r: other}), []rs{"{E:<nil> B:[] R:", r, " s: r:", other, "}"}, nil
	case "PStruct":
		return redact.Sprint(&StructB{R: r, r: other}), []rs{"&{<nil> [] ", r, "  ", other, "}"}, nil
	case "StructIface":
		return redact.Sprint(StructA{X: r, Y: "", z: other}), []rs{"{", r, "  ", other, " " + startS + "0" + endS + "}"}, nil
	case "SharpV":
		// Go-syntax: only containment and the distribution laws are claimed
		out := redact.Sprintf("%#v", []interface{}{r, StructB{R: other}})
		if !strings.Contains(string(out), string(r)) || !strings.Contains(string(out), string(other)) {
			return out, nil, fmt.Errorf("%%#v of a container holding %s and %s gives %s: not contained unchanged", qs(string(r)), qs(string(other)), qs(string(out)))
		}
		return out, []rs{out}, nil
	}
	return "", nil, fmt.Errorf("HARNESS: unknown step %s", st.K)
}

func isInteresting(r rs) bool {
	b := []byte(r)
	return hasMarker(b) || bytes.IndexByte(b, '\n') >= 0 || bytes.IndexByte(b, '?') >= 0
}

func checkC08(s *C08Spec) Result {
	var res Result
	b := &builder{}
	var r rs
	if p, _ := guard(func() { r = b.print(s.R0) }); p {
		res.Classes = append(res.Classes, "build-panicked")
		return res
	}
	if !WF([]byte(r)) {
		res.Err = fmt.Errorf("r0 = %s is not well-formed", qs(string(r)))
		return res
	}
	for i, st := range s.Steps {
		var got rs
		var pieces []rs
		var err error
		if p, _ := guard(func() { got, pieces, err = applyStep(st, r, b) }); p {
			// building "other" can hit a propagating nested panic
			res.Classes = append(res.Classes, "step-panicked")
			return res
		}
		if err != nil {
			res.Err = fmt.Errorf("step %d (%s) on r = %s: %v", i, st.K, qs(string(r)), err)
			return res
		}
		bare := st.K == "Sprint" || (st.K == "Sprintf" && st.Dir != nil && st.Dir.String() == "%v" && len(st.L0)+len(st.L1) == 0)
		if isInteresting(r) && !bare {
			res.NonTrivial = true
		}
		res.Classes = append(res.Classes, "step:"+st.K)
		var want, wantRed rs
		wantStr := ""
		for _, p := range pieces {
			want += p
			wantRed += p.Redact()
			wantStr += p.StripMarkers()
		}
		if got != want {
			d := ""
			if st.Dir != nil {
				d = " directive " + st.Dir.String()
			}
			res.Err = fmt.Errorf("step %d (%s%s) on r = %s: got %s, the law requires %s", i, st.K, d, qs(string(r)), qs(string(got)), qs(string(want)))
			return res
		}
		// Redact and StripMarkers distribute over the composition
		if red, str := got.Redact(), got.StripMarkers(); red != wantRed || str != wantStr {
			res.Err = fmt.Errorf("step %d (%s): Redact/StripMarkers do not distribute over the composition %s: Redact gives %s (piecewise %s), StripMarkers %s (piecewise %s)",
				i, st.K, qs(string(got)), qs(string(red)), qs(string(wantRed)), qs(str), qs(wantStr))
			return res
		}
		r = got
	}
	res.Classes = append(res.Classes, fmt.Sprintf("depth:%d", len(s.Steps)))
	return res
}

// ---- C08Lines: the lines of an output are redactables too --------------------------

// C08Lines: a payload is printed; each line of the output (a well-formed
// redactable according to C03) is printed again, followed by an operand
// whose bytes could complete what the line ends with.
type C08Lines struct {
	Payload B      `json:"payload"`        // unsafe payload over the byte alphabet, with line feeds
	Safe    bool   `json:"safe,omitempty"` // the payload is printed as safe text instead
	Cont    B      `json:"cont"`           // what follows the line
	Route   string `json:"route"`          // Sprintf, Sprint, SB, SafeCont
}

func init() {
	register("C08Lines", "C08", func() interface{} { return &C08Lines{} }, func(s interface{}) Result { return checkC08Lines(s.(*C08Lines)) })
}

func checkC08Lines(s *C08Lines) Result {
	var res Result
	var out redact.RedactableString
	if s.Safe {
		out = redact.Sprint(redact.Safe(string(s.Payload)))
	} else {
		out = redact.Sprint(string(s.Payload))
	}
	lines := bytes.Split([]byte(out), []byte("\n"))
	res.NonTrivial = len(lines) > 1 && hasMarkerish(s.Payload)
	res.Classes = append(res.Classes, "route:"+s.Route)
	// the lines printed one after the other, and joined, are well-formed
	if s.Route == "Lines" {
		var rl []redact.RedactableString
		var args []interface{}
		for _, l := range lines {
			rl = append(rl, redact.RedactableString(l))
			args = append(args, redact.RedactableString(l))
		}
		for name, got := range map[string][]byte{
			"Sprint(lines...)":                 []byte(redact.Sprint(args...)),
			"Join(\"\", lines)":                []byte(redact.Join("", rl)),
			"Join(cont as safe text, lines)":   []byte(redact.Join(redact.Sprint(redact.Safe(string(s.Cont))), rl)),
			"Join(cont as unsafe text, lines)": []byte(redact.Join(redact.Sprint(string(s.Cont)), rl)),
			"Sprintf(\"%v|%s\", line0, lineN)": []byte(redact.Sprintf("%v"+string(s.Cont)+"%s", args[0], args[len(args)-1])),
		} {
			if !WF(got) {
				res.Err = fmt.Errorf("the lines of Sprint(%s) = %s, printed again: %s gives %s: not well-formed", q(s.Payload), q([]byte(out)), name, q(got))
				return res
			}
		}
		return res
	}
	for i, l := range lines {
		if !WF(l) {
			res.Err = fmt.Errorf("line %d of Sprint(%s) = %s is not well-formed", i, q(s.Payload), q(l))
			return res
		}
		line := redact.RedactableString(l)
		var got []byte
		switch s.Route {
		case "Sprintf":
			got = []byte(redact.Sprintf("%s%s", line, string(s.Cont)))
		case "Sprint":
			got = []byte(redact.Sprint(line, s.Cont)) // (a []byte operand: no space in between... it is not a string)
		case "SB":
			var sb redact.StringBuilder
			sb.Print(line)
			sb.UnsafeBytes(s.Cont)
			got = []byte(sb.RedactableString())
		case "SBReuse":
			// the same on a builder that was used and emptied before (Take
			// returns it to the state of a new one)
			var sb redact.StringBuilder
			// (earlier content of the same length, ending in a closing marker
			// the builder wrote itself)
			if n := len(l) - 6; n > 0 {
				sb.UnsafeString(strings.Repeat("x", n))
			} else {
				sb.Print(line)
			}
			_ = sb.TakeRedactableString()
			sb.Print(line)
			sb.UnsafeBytes(s.Cont)
			got = []byte(sb.RedactableString())
		default: // SafeCont: what follows is safe text
			got = []byte(redact.Sprintf("%s%s", line, redact.Safe(string(s.Cont))))
			if !WF(got) {
				res.Err = fmt.Errorf("line %s of Sprint(%s) followed by the safe text %s prints %s: not well-formed", q(l), q(s.Payload), q(s.Cont), q(got))
				return res
			}
			continue
		}
		if !LS(got) {
			res.Err = fmt.Errorf("%s: line %s of Sprint(%s) followed by the unsafe operand %s prints %s: not well-formed and line-safe", s.Route, q(l), q(s.Payload), q(s.Cont), q(got))
			return res
		}
		// nothing of the unsafe operand is outside envelopes (its line feeds apart)
		wantSafe := append([]byte(nil), delEnv(l)...)
		if s.Route == "Sprint" {
			// (Sprint puts a space between operands that are not strings)
			wantSafe = bytes.TrimSuffix(wantSafe, nil)
		}
		gotSafe := delEnv(got)
		rest := bytes.TrimPrefix(gotSafe, wantSafe)
		// (safe text that ends in a truncated sequence is followed by one '?' guard)
		rest = bytes.TrimPrefix(rest, []byte("?"))
		if len(rest) == len(gotSafe) && len(wantSafe) > 0 || len(bytes.Trim(rest, "\n ")) != 0 {
			res.Err = fmt.Errorf("%s: line %s of Sprint(%s) followed by the unsafe operand %s prints %s: outside envelopes is %s, want %s + line feeds only", s.Route, q(l), q(s.Payload), q(s.Cont), q(got), q(gotSafe), q(wantSafe))
			return res
		}
	}
	return res
}

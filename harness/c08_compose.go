package verifharness

// C08 — redactables compose: re-printing is identity, joining is concatenation.

import (
	"bytes"
	"fmt"
	"math"
	"reflect"
	"strings"

	"github.com/cockroachdb/redact"
)

type C08Step struct {
	K     string     `json:"k"`
	Dir   *Directive `json:"dir,omitempty"`
	StarW int        `json:"starW,omitempty"`
	StarP int        `json:"starP,omitempty"`
	L0    B          `json:"l0,omitempty"`
	L1    B          `json:"l1,omitempty"`
	L2    B          `json:"l2,omitempty"`
	Other *PrintS    `json:"other,omitempty"`
	Delim *PrintS    `json:"delim,omitempty"`
}

type C08Spec struct {
	R0    *PrintS    `json:"r0"`
	Steps []*C08Step `json:"steps"`
}

func init() {
	register("C08Compose", "C08", func() interface{} { return &C08Spec{} }, func(s interface{}) Result { return checkC08(s.(*C08Spec)) })
}

type rs = redact.RedactableString

func (st *C08Step) dirArgs(x interface{}) (string, []interface{}) {
	d := "%v"
	var a []interface{}
	if st.Dir != nil {
		d = st.Dir.String()
		if st.Dir.Width == "*" {
			a = append(a, st.StarW)
		}
		if st.Dir.Prec == ".*" {
			a = append(a, st.StarP)
		}
	}
	return d, append(a, x)
}

func lit(b []byte) string { return strings.ReplaceAll(string(b), "%", "%%") }

// applyStep returns the result of the step and what the laws say it must be.
func applyStep(st *C08Step, r rs, b *builder) (got rs, pieces []rs, err error) {
	other := b.print(st.Other)
	delim := b.print(st.Delim)
	d, args := st.dirArgs(nil)
	switch st.K {
	case "Sprint":
		return redact.Sprint(r), []rs{r}, nil
	case "SprintBytes":
		return redact.Sprint(r.ToBytes()), []rs{r}, nil
	case "Sprintf":
		args[len(args)-1] = r
		return redact.Sprintf(lit(st.L0)+d+lit(st.L1), args...), []rs{rs(esc(st.L0)), r, rs(esc(st.L1))}, nil
	case "SprintfBytes":
		args[len(args)-1] = r.ToBytes()
		return redact.Sprintf(lit(st.L0)+d+lit(st.L1), args...), []rs{rs(esc(st.L0)), r, rs(esc(st.L1))}, nil
	case "Reflect":
		args[len(args)-1] = reflect.ValueOf(r)
		return redact.Sprintf(d, args...), []rs{r}, nil
	case "ReflectField":
		// a reflect.Value obtained from an unexported field
		args[len(args)-1] = reflect.ValueOf(StructB{r: r}).Field(4)
		return redact.Sprintf(d, args...), []rs{r}, nil
	case "ReflectIfaceField":
		args[len(args)-1] = reflect.ValueOf(StructA{z: r}).Field(2)
		return redact.Sprintf(d, args...), []rs{r}, nil
	case "Safe":
		args[len(args)-1] = redact.Safe(r)
		return redact.Sprintf(d, args...), []rs{r}, nil
	case "Iface":
		var i interface{} = r
		args[len(args)-1] = &i
		_ = i
		args[len(args)-1] = []interface{}{r}[0]
		return redact.Sprintf(d, args...), []rs{r}, nil
	case "Concat":
		return redact.Sprintf(lit(st.L0)+"%v"+lit(st.L1)+"%s"+lit(st.L2), r, other),
			[]rs{rs(esc(st.L0)), r, rs(esc(st.L1)), other, rs(esc(st.L2))}, nil
	case "Join":
		return redact.Join(delim, []rs{r, other, r}), []rs{r, delim, other, delim, r}, nil
	case "Join1":
		return redact.Join(delim, []rs{r}), []rs{r}, nil
	case "JoinToSB":
		var sb redact.StringBuilder
		redact.JoinTo(&sb, delim, []rs{r, other})
		return sb.RedactableString(), []rs{r, delim, other}, nil
	case "JoinToPrinter":
		return redact.Sprintfn(func(w redact.SafePrinter) { redact.JoinTo(w, delim, []rs{other, r}) }), []rs{other, delim, r}, nil
	case "SBPrint":
		var sb redact.StringBuilder
		sb.Print(r)
		return sb.RedactableString(), []rs{r}, nil
	case "SBSnapshot":
		// a composition read from a builder that stays in use: it remains
		// what it was (later steps reproduce it)
		var sb redact.StringBuilder
		sb.Print(r)
		snap := sb.RedactableString()
		sb.UnsafeString("later\n" + startS)
		sb.Print(other)
		sb.Reset()
		sb.SafeString("0123456789012345678901234567890123456789")
		return snap, []rs{r}, nil
	case "SBPrintf":
		var sb redact.StringBuilder
		args[len(args)-1] = r
		sb.Printf(lit(st.L0)+d+lit(st.L1), args...)
		return rs(sb.RedactableBytes()), []rs{rs(esc(st.L0)), r, rs(esc(st.L1))}, nil
	case "PrintSB":
		var sb redact.StringBuilder
		sb.Print(r)
		args[len(args)-1] = sb
		return redact.Sprintf(d, args...), []rs{r}, nil
	case "PrintPSB":
		var sb redact.StringBuilder
		sb.Print(r)
		args[len(args)-1] = &sb
		return redact.Sprintf(d, args...), []rs{r}, nil
	case "PrinterPrint":
		return redact.Sprintfn(func(w redact.SafePrinter) { w.Print(r) }), []rs{r}, nil
	case "PrinterPrintf":
		args[len(args)-1] = r
		return redact.Sprintfn(func(w redact.SafePrinter) { w.Printf(lit(st.L0)+d+lit(st.L1), args...) }), []rs{rs(esc(st.L0)), r, rs(esc(st.L1))}, nil
	// containers, bare %v / %+v: hand model of fmt's brackets
	case "Slice":
		return redact.Sprint([]rs{r, other}), []rs{"[", r, " ", other, "]"}, nil
	case "Array":
		return redact.Sprintf("%v", [2]rs{other, r}), []rs{"[", other, " ", r, "]"}, nil
	case "ISlice":
		return redact.Sprintf("%s", []interface{}{r, other.ToBytes()}), []rs{"[", r, " ", other, "]"}, nil
	case "Map":
		return redact.Sprint(map[string]rs{"k": r}), []rs{"map[" + startS + "k" + endS + ":", r, "]"}, nil
	case "MapNaN":
		// (a key that is not equal to itself: the entry cannot be looked up again)
		return redact.Sprint(map[float64]rs{math.NaN(): r}), []rs{"map[" + startS + "NaN" + endS + ":", r, "]"}, nil
	case "MapArrKey":
		return redact.Sprint(map[interface{}]interface{}{[2]float64{math.NaN(), 1}: r}), []rs{"map[[" + startS + "NaN" + endS + " " + startS + "1" + endS + "]:", r, "]"}, nil
	case "MapMulti":
		return redact.Sprint(map[int]rs{2: other, 1: r, 3: r}), []rs{"map[" + startS + "1" + endS + ":", r, " " + startS + "2" + endS + ":", other, " " + startS + "3" + endS + ":", r, "]"}, nil
	case "IMap":
		return redact.Sprint(map[string]interface{}{"k": r}), []rs{"map[" + startS + "k" + endS + ":", r, "]"}, nil
	case "Struct":
		return redact.Sprint(StructB{R: r, r: other}), []rs{"{<nil> [] ", r, "  ", other, "}"}, nil
	case "StructPlus":
		return redact.Sprintf("%+v", StructB{R: r, r: other}), []rs{"{E:<nil> B:[] R:", r, " s: r:", other, "}"}, nil
	case "PStruct":
		return redact.Sprint(&StructB{R: r, r: other}), []rs{"&{<nil> [] ", r, "  ", other, "}"}, nil
	case "StructIface":
		return redact.Sprint(StructA{X: r, Y: "", z: other}), []rs{"{", r, "  ", other, " " + startS + "0" + endS + "}"}, nil
	case "SharpV":
		// Go-syntax: only containment and the distribution laws are claimed
		out := redact.Sprintf("%#v", []interface{}{r, StructB{R: other}})
		if !strings.Contains(string(out), string(r)) || !strings.Contains(string(out), string(other)) {
			return out, nil, fmt.Errorf("%%#v of a container holding %s and %s gives %s: not contained unchanged", qs(string(r)), qs(string(other)), qs(string(out)))
		}
		return out, []rs{out}, nil
	}
	return "", nil, fmt.Errorf("HARNESS: unknown step %s", st.K)
}

func isInteresting(r rs) bool {
	b := []byte(r)
	return hasMarker(b) || bytes.IndexByte(b, '\n') >= 0 || bytes.IndexByte(b, '?') >= 0
}

func checkC08(s *C08Spec) Result {
	var res Result
	b := &builder{}
	var r rs
	if p, _ := guard(func() { r = b.print(s.R0) }); p {
		res.Classes = append(res.Classes, "build-panicked")
		return res
	}
	if !WF([]byte(r)) {
		res.Err = fmt.Errorf("r0 = %s is not well-formed", qs(string(r)))
		return res
	}
	for i, st := range s.Steps {
		var got rs
		var pieces []rs
		var err error
		if p, _ := guard(func() { got, pieces, err = applyStep(st, r, b) }); p {
			// building "other" can hit a propagating nested panic
			res.Classes = append(res.Classes, "step-panicked")
			return res
		}
		if err != nil {
			res.Err = fmt.Errorf("step %d (%s) on r = %s: %v", i, st.K, qs(string(r)), err)
			return res
		}
		bare := st.K == "Sprint" || (st.K == "Sprintf" && st.Dir != nil && st.Dir.String() == "%v" && len(st.L0)+len(st.L1) == 0)
		if isInteresting(r) && !bare {
			res.NonTrivial = true
		}
		res.Classes = append(res.Classes, "step:"+st.K)
		var want, wantRed rs
		wantStr := ""
		for _, p := range pieces {
			want += p
			wantRed += p.Redact()
			wantStr += p.StripMarkers()
		}
		if got != want {
			d := ""
			if st.Dir != nil {
				d = " directive " + st.Dir.String()
			}
			res.Err = fmt.Errorf("step %d (%s%s) on r = %s: got %s, the law requires %s", i, st.K, d, qs(string(r)), qs(string(got)), qs(string(want)))
			return res
		}
		// Redact and StripMarkers distribute over the composition
		if red, str := got.Redact(), got.StripMarkers(); red != wantRed || str != wantStr {
			res.Err = fmt.Errorf("step %d (%s): Redact/StripMarkers do not distribute over the composition %s: Redact gives %s (piecewise %s), StripMarkers %s (piecewise %s)",
				i, st.K, qs(string(got)), qs(string(red)), qs(string(wantRed)), qs(str), qs(wantStr))
			return res
		}
		r = got
	}
	res.Classes = append(res.Classes, fmt.Sprintf("depth:%d", len(s.Steps)))
	return res
}

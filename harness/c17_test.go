package verifharness

import (
	"strings"
	"testing"

	"pgregory.net/rapid"
)

var c17ErrKinds = []string{"err", "perr", "stderr", "serr", "ierr", "errwrap", "errwrapv", "errwrapv", "nilerr", "errstringer", "errfmter", "errsafefmt", "errsafemsg", "byteerr", "sliceerr", "nilsliceerr", "errgostr", "sverr"}

func genC17Err(rt *rapid.T, vc *valConfig) *Val {
	k := c17ErrKinds[rapid.IntRange(0, len(c17ErrKinds)-1).Draw(rt, "ek")]
	switch k {
	case "ierr", "byteerr":
		return vc.leafI(rt, k, false)
	case "nilerr", "nilsliceerr":
		return &Val{K: k}
	case "errwrap":
		v := vc.leafS(rt, k, false, false)
		v.Sub = []*Val{vc.leafS(rt, "stderr", false, false)}
		return v
	case "errwrapv":
		// a chain of value-type wrapping errors (the cause has the same
		// dynamic type half of the time)
		v := vc.leafS(rt, k, false, false)
		cause := vc.leafS(rt, pick(rt, "cause", []string{"serr", "err", "errwrapv"}), false, false)
		if cause.K == "errwrapv" {
			cause.Sub = []*Val{vc.leafS(rt, "serr", false, false)}
		}
		v.Sub = []*Val{cause}
		return v
	case "errfmter":
		v := vc.leafS(rt, k, false, false)
		v.Ops = []*Op{{K: "Write", S: genText(rt, "fw", 2)}, {K: "State"}}
		return v
	case "errsafefmt":
		v := vc.leafS(rt, k, false, false)
		v.Ops = genHistory(rt, &opConfig{ioSide: true, maxTok: 2}, 3)
		return v
	}
	return vc.leafS(rt, k, false, false)
}

// genC17Operand: an error at a generated position / depth.
func genC17Operand(rt *rapid.T, vc *valConfig, depth int) *Val {
	e := func() *Val { return genC17Err(rt, vc) }
	// fillers that are not errors (every error of the case must be one the
	// stand-in transformation knows about)
	other := func() *Val {
		switch rapid.IntRange(0, 7).Draw(rt, "other") {
		case 0:
			return vc.leafI(rt, "int", false)
		case 1:
			return vc.leafS(rt, "stringer", false, false)
		case 2:
			return vc.leafS(rt, "SafeString", true, false)
		case 3:
			return &Val{K: "nil"}
		case 4:
			return vc.leafS(rt, "bytes", false, true)
		case 5:
			return vc.leafF(rt, "f64", false)
		case 6:
			return vc.leafS(rt, "pstr", false, false)
		}
		return vc.leafS(rt, "str", false, false)
	}
	k := rapid.IntRange(0, 15).Draw(rt, "pos")
	if k == 15 {
		if c17HookPanics {
			k = 0 // (a panic while a panic is being reported leaves the call: C11)
		} else {
			// a value whose String method panics with an error: the report of
			// the panic prints the error (verb v), through the hook
			// (an error whose own Error method panics would be a panic during
			// the report when no hook is there to render it: C11)
			pl := vc.leafS(rt, pick(rt, "plk", []string{"stderr", "serr", "err", "perr", "errstringer"}), false, false)
			return &Val{K: pick(rt, "pk", []string{"stringer!", "pstringer!"}), S: B("x"), Sub: []*Val{pl}}
		}
	}
	if k == 14 {
		return &Val{K: "berrslice", Sub: []*Val{vc.leafI(rt, "byteerr", false), vc.leafI(rt, "byteerr", false)}}
	}
	if depth >= 2 && k >= 3 {
		k = 0
	}
	if depth > 0 && (k == 7 || k == 13) {
		k = 0 // a nested pointer prints its address; the two shapes are distinct objects
	}
	switch k {
	case 0, 1, 2:
		return e()
	case 3:
		return &Val{K: "islice", Sub: []*Val{other(), genC17Operand(rt, vc, depth+1), e()}}
	case 4:
		return &Val{K: "errslice", Sub: []*Val{e(), {K: "nil"}, e()}}
	case 5:
		v := &Val{K: "msi", Sub: []*Val{genC17Operand(rt, vc, depth+1), other()}}
		v.Keys = []*Val{{K: "str", S: B("a")}, {K: "str", S: B("b")}}
		return v
	case 6:
		return &Val{K: "structA", Sub: []*Val{genC17Operand(rt, vc, depth+1), e()}, S: B("y"), I: 3}
	case 7:
		return &Val{K: "pstructA", Sub: []*Val{e(), e()}, S: B("y")}
	case 8:
		return &Val{K: "structB", Sub: []*Val{e(), {K: "bytes", S: B("b")}}, S: B("s")}
	case 9:
		return &Val{K: "rv", Sub: []*Val{e()}}
	case 10:
		return &Val{K: "unsafe", Sub: []*Val{e()}}
	case 11:
		return &Val{K: "safe", Sub: []*Val{e()}}
	case 12:
		return &Val{K: "iarr2", Sub: []*Val{e(), genC17Operand(rt, vc, depth+1)}}
	default:
		return &Val{K: "pislice", Sub: []*Val{e()}}
	}
}

// c17HookPanics: the hook script of the case being drawn ends in a panic
var c17HookPanics bool

func genC17(rt *rapid.T) *FmtCase {
	vc := &valConfig{maxDepth: 1}
	c := &FmtCase{}
	c.HasHook = rapid.IntRange(0, 9).Draw(rt, "hook") > 0
	c17HookPanics = false
	if c.HasHook {
		c.Hook = genHookScript(rt, vc)
		if rapid.IntRange(0, 5).Draw(rt, "hookpanics") == 0 {
			c17HookPanics = true
			// a hook that panics after its partial output (payload: not an
			// error, which the hook itself would be asked to render)
			c.Hook = append(c.Hook, &Op{K: "Panic", Args: []*Val{vc.leafS(rt, "str", false, false)}})
		}
	}
	for _, k := range regKindsAll {
		if rapid.IntRange(0, 5).Draw(rt, "reg") == 0 {
			c.Reg = append(c.Reg, k)
		}
	}
	fc := &fmtConfig{noStar: true, noW: true, noHugeNumbers: true}
	switch rapid.IntRange(0, 5).Draw(rt, "route") {
	case 0:
		// (one operand: Sprint's separator depends on whether neighbouring
		// operands are of string kind, which the stand-in cannot preserve)
		c.Route = "Sprint"
		c.Args = append(c.Args, genC17Operand(rt, vc, 0))
		return c
	case 1:
		// the single correct %w of HelperForErrorf
		c.Route = "HelperForErrorf"
		c.Segs = []Seg{{Lit: fc.genLit(rt)}, {Dir: &Directive{Verb: B("w")}}, {Lit: fc.genLit(rt)}}
		c.Args = []*Val{genC17Err(rt, vc)}
		return c
	case 2:
		c.Route = "Fprintf"
	default:
		c.Route = "Sprintf"
	}
	n := rapid.IntRange(1, 3).Draw(rt, "ndirs")
	for i := 0; i < n; i++ {
		if rapid.Bool().Draw(rt, "haslit") {
			c.Segs = append(c.Segs, Seg{Lit: fc.genLit(rt)})
		}
		d := fc.genDirective(rt)
		if string(d.Verb) == "%" {
			d.Verb = B("v")
		}
		c.Segs = append(c.Segs, Seg{Dir: d})
		if v := string(d.Verb); v == "p" || v == "T" {
			c.Args = append(c.Args, genC17Err(rt, vc)) // kept as is in both shapes (same object)
		} else {
			a := genC17Operand(rt, vc, 0)
			if hasKind(a, map[string]bool{"berrslice": true, "stringer!": true, "pstringer!": true}) && strings.Contains(d.Flags, "#") {
				// (Go syntax names the slice's element type, which the stand-in shape changes)
				d.Flags = strings.ReplaceAll(d.Flags, "#", "")
			}
			if hasKind(a, map[string]bool{"stringer!": true, "pstringer!": true}) && !strings.Contains("vsxXq", string(d.Verb)) {
				// (under other verbs the struct is printed field by field, and
				// the panic closure's address differs between the two shapes)
				d.Verb = B("v")
			}
			c.Args = append(c.Args, a)
		}
	}
	// (no EXTRA operands: their report names the operand's type, which is
	// what distinguishes the stand-in)
	return c
}

func TestC17Hook(t *testing.T) {
	rapidCheck(t, "C17Hook", func(rt *rapid.T) interface{} { return genC17(rt) })
}

package verifharness

// C15 — HelperForErrorf returns the %w operand and the Sprintf text.

import (
	"bytes"
	"errors"
	"fmt"
	"reflect"
	"strings"

	"github.com/cockroachdb/redact"
)

func init() {
	register("C15Errorf", "C15", func() interface{} { return &FmtCase{} }, func(s interface{}) Result { return checkC15(s.(*FmtCase)) })
}

// unwrapSafeUnsafe: the operand as the printer sees it after removing
// top-level Safe()/Unsafe() wrappers.
func wrappedInner(v *Val) *Val {
	for v != nil && (v.K == "safe" || v.K == "unsafe") && len(v.Sub) == 1 {
		v = v.Sub[0]
	}
	return v
}

func checkC15(c *FmtCase) Result {
	var res Result
	format := c.Format()
	applyConfig(c.Reg, c.HasHook, c.Hook)
	defer resetConfig()
	var args []interface{}
	if p, _ := guard(func() { args = BuildAll(c.Args, 0) }); p {
		res.Classes = append(res.Classes, "build-panicked")
		return res
	}
	got := callRedact("HelperForErrorf", format, args)
	if got.panicked {
		// (a panic raised while a panic payload is printed propagates, as in
		// fmt - C11's business; but then Sprintf, which prints the same operands
		// with the same methods, panics as well)
		res.Classes = append(res.Classes, "panicked")
		// (with every %w written as %v, so that the methods a correct %w calls
		// are called there too)
		c2 := *c
		c2.Segs = nil
		for _, sg := range c.Segs {
			if sg.Dir != nil && string(sg.Dir.Verb) == "w" {
				d := *sg.Dir
				d.Verb = B("v")
				sg = Seg{Dir: &d}
			}
			c2.Segs = append(c2.Segs, sg)
		}
		if sp := callRedact("Sprintf", c2.Format(), args); !c.HasRaw && !sp.panicked {
			res.Err = fmt.Errorf("HelperForErrorf(%s, ...) panicked (%v); Sprintf(%s, ...) with the same operands does not", qs(format), got.panicVal, qs(c2.Format()))
		}
		return res
	}
	fail := func(f string, a ...interface{}) Result {
		res.Err = fmt.Errorf("HelperForErrorf(%s, ...): %s", qs(format), fmt.Sprintf(f, a...))
		return res
	}

	// walk the structured format: which operand does each directive consume
	nW := 0
	ai := 0
	wrapOK := true
	var wrapped interface{}
	hasSharpW := false
	fmtCompat := true
	var want []byte // composition over Sprintf, segment by segment
	composable := true
	for _, s := range c.Segs {
		if s.Dir == nil {
			if p, _ := guard(func() { want = append(want, redact.Sprintf(string(s.Lit))...) }); p {
				composable = false
			}
			continue
		}
		d := s.Dir
		var dargs []interface{}
		if d.Width == "*" {
			if ai < len(args) {
				dargs = append(dargs, args[ai])
			}
			ai++
		}
		if d.Prec == ".*" {
			if ai < len(args) {
				dargs = append(dargs, args[ai])
			}
			ai++
		}
		isW := string(d.Verb) == "w"
		present := ai < len(args)
		var operand interface{}
		var opSpec *Val
		if present && string(d.Verb) != "%" {
			operand = args[ai]
			opSpec = c.Args[ai]
			dargs = append(dargs, operand)
		}
		if string(d.Verb) != "%" {
			ai++
		}
		segFmt := d.String()
		if isW {
			nW++
			// '#' and '+' are turned into the Go-syntax / field-name variants only
			// for a literal %v (in fmt as well), so "%+w" and "%+v" hand different
			// flags to nested formatting; the "like %v" clause is not judged there
			if strings.ContainsAny(d.Flags, "#+") {
				hasSharpW = true
			}
			inner := operand
			if opSpec != nil {
				if w := wrappedInner(opSpec); w != opSpec {
					inner = Build(w, 0)
					// (fresh build: only its dynamic type matters below)
				}
			}
			_, isErr := inner.(error)
			if present && isErr && wrapOK && wrapped == nil {
				// correct use: renders exactly like %v
				wrapped = inner
				if w := wrappedInner(opSpec); w != opSpec {
					wrapped = operandInner(operand)
				}
				vd := *d
				vd.Verb = B("v")
				segFmt = vd.String()
				res.Classes = append(res.Classes, "w:correct")
			} else {
				wrapOK = false
				wrapped = nil
				switch {
				case !present:
					res.Classes = append(res.Classes, "w:missing")
				case inner == nil:
					res.Classes = append(res.Classes, "w:nil")
				case !isErr:
					res.Classes = append(res.Classes, "w:non-error")
				default:
					res.Classes = append(res.Classes, "w:second")
				}
			}
		}
		if opSpec != nil && !isFmtCompatVal(opSpec) {
			fmtCompat = false
		}
		if p, _ := guard(func() { want = append(want, redact.Sprintf(segFmt, dargs...)...) }); p {
			composable = false
		}
	}
	extra := ai < len(args)
	for _, a := range c.Args {
		if !isFmtCompatVal(a) {
			fmtCompat = false
		}
	}
	res.NonTrivial = nW > 0
	if nW > 1 {
		res.Classes = append(res.Classes, "w:several")
	}

	// (E) the returned error
	var wantErr error
	if wrapped != nil {
		wantErr = wrapped.(error)
	}
	if !sameError(got.err, wantErr) {
		return fail("returned error %v (%T), want %v (%T): the format has %d %%w", got.err, got.err, wantErr, wantErr, nW)
	}
	// (T1) no %w: text == Sprintf
	if nW == 0 {
		sp := callRedact("Sprintf", format, args)
		if !sp.panicked && !bytes.Equal(sp.out, got.out) {
			return fail("text %s differs from Sprintf's %s although there is no %%w", q(got.out), q(sp.out))
		}
	}
	// (T2) composition over Sprintf; EXTRA operands make the tail differ
	if composable && !extra && !hasSharpW {
		if !bytes.Equal(normE(got.out), normE(want)) {
			return fail("text %s, want %s (per-directive Sprintf with the correct %%w printed as %%v and every other %%w as a bad verb)", q(got.out), q(want))
		}
	}
	// (T3) differential with fmt.Errorf for at most one %w
	if nW <= 1 && fmtCompat && !hasSharpW && !c.HasHook {
		var fe error
		if p, _ := guard(func() { fe = fmt.Errorf(format, args...) }); !p {
			// (the excluded combination is the toolchain drift described in c04_fidelity.go)
			if g, w := strip(got.out), esc([]byte(fe.Error())); !bytes.Equal(g, w) {
				return fail("text stripped %s, fmt.Errorf message %s", q(g), q(w))
			}
			if !sameError(got.err, errors.Unwrap(fe)) {
				return fail("returned error %v, errors.Unwrap(fmt.Errorf(...)) is %v", got.err, errors.Unwrap(fe))
			}
			res.Classes = append(res.Classes, "fmt.Errorf-differential")
		}
	}
	return res
}

// operandInner unwraps redact.Safe/Unsafe of a built operand through their
// common accessor.
func operandInner(v interface{}) interface{} {
	for {
		g, ok := v.(interface{ GetValue() interface{} })
		if !ok {
			return v
		}
		v = g.GetValue()
	}
}

func sameError(a, b error) (same bool) {
	defer func() {
		if recover() != nil {
			// uncomparable dynamic type (func field): same type and same text
			same = reflect.TypeOf(a) == reflect.TypeOf(b) && (reflect.DeepEqual(a, b) || safeErrorText2(a) == safeErrorText2(b))
		}
	}()
	return a == b
}

// isFmtCompatVal: no redact-specific rendering anywhere in the value.
func isFmtCompatVal(v *Val) bool {
	if v == nil {
		return true
	}
	switch v.K {
	case "SafeString", "SafeInt", "SafeUint", "SafeFloat", "SafeRune", "safe", "unsafe", "safefmt", "psafefmt", "errsafefmt", "safemsg", "safemsg!", "safemsg2",
		"errsafemsg", "rs", "rb", "sb", "psb", "structB", "pstructB":
		return false
	}
	for _, s := range v.Sub {
		if !isFmtCompatVal(s) {
			return false
		}
	}
	for _, op := range v.Ops {
		if op.K == "SP" {
			return false
		}
		for _, a := range op.Args {
			if !isFmtCompatVal(a) {
				return false
			}
		}
	}
	return true
}

// safeErrorText2: the error text, or the panic value if Error panics.
func safeErrorText2(err error) (s string) {
	defer func() {
		if r := recover(); r != nil {
			s = fmt.Sprintf("<panic:%v>", r)
		}
	}()
	return err.Error()
}

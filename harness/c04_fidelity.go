package verifharness

// C04 — with markers stripped, output equals what fmt prints.

import (
	"bytes"
	"fmt"
	"strings"
)

func init() {
	register("C04Diff", "C04", func() interface{} { return &FmtCase{} }, func(s interface{}) Result { return checkC04(s.(*FmtCase)) })
}

var fmtDiagnostics = []string{"%!(EXTRA", "(MISSING)", "(BADINDEX)", "%!(BADWIDTH)", "%!(BADPREC)", "%!(NOVERB)", "(PANIC=", "<nil>", "<invalid reflect.Value>", "%!"}

// hasWidthOrPrec: some directive may carry a width or precision.
func hasWidthOrPrec(c *FmtCase) bool {
	if c.HasRaw {
		return bytes.ContainsAny(c.Raw, "0123456789.*")
	}
	for _, s := range c.Segs {
		if s.Dir != nil && s.Dir.hasWP() {
			return true
		}
	}
	return false
}

func isBasicKind(k string) bool {
	switch k {
	case "str", "int", "bool", "f64", "nil":
		return true
	}
	return false
}

func checkC04(c *FmtCase) Result {
	var res Result
	format := c.Format()
	applyConfig(c.Reg, false, nil)
	defer resetConfig()
	var args []interface{}
	buildPanicked := func() (p bool) {
		defer func() {
			if recover() != nil {
				p = true
			}
		}()
		args = BuildAll(c.Args, 0)
		return false
	}()
	if buildPanicked {
		res.Classes = append(res.Classes, "build-panicked")
		return res
	}
	want := callFmt(c.Route, format, args)
	got := callRedact(c.Route, format, args)

	// classification
	nt := false
	if c.isPrintf() {
		if c.HasRaw {
			nt = true
			res.Classes = append(res.Classes, "chaotic-format")
		}
		for _, s := range c.Segs {
			if s.Dir != nil && (!s.Dir.bare() || string(s.Dir.Verb) != "v") {
				nt = true
			}
		}
	}
	for _, a := range c.Args {
		if !isBasicKind(a.K) {
			nt = true
		}
	}
	for _, d := range fmtDiagnostics {
		if bytes.Contains(want.out, []byte(d)) {
			res.Classes = append(res.Classes, "diag:"+d)
			nt = true
		}
	}
	res.NonTrivial = nt

	if want.panicked != got.panicked {
		res.Err = fmt.Errorf("%s(%s, ...): fmt panicked=%v (%v), redact panicked=%v (%v)", c.Route, qs(format), want.panicked, want.panicVal, got.panicked, got.panicVal)
		return res
	}
	if want.panicked {
		res.Classes = append(res.Classes, "both-panic")
		return res
	}
	if !WF(got.out) {
		res.Err = fmt.Errorf("%s(%s, ...): output %s is not well-formed", c.Route, qs(format), q(got.out))
		return res
	}
	g, w := strip(got.out), esc(want.out)
	// (Until /repo 8f22474 the fork kept the width and precision numbers after a
	// caught method panic where fmt since Go 1.21 loses them; the fork's
	// clearflags now resets them too and the outputs are compared.)
	if !bytes.Equal(g, w) {
		res.Err = fmt.Errorf("%s(%s, ...): redact prints %s (stripped %s), fmt prints %s (escaped %s)", c.Route, qs(format), q(got.out), q(g), q(want.out), q(w))
		return res
	}
	if strings.HasPrefix(c.Route, "F") {
		if len(got.writes) != 1 && !(len(got.writes) == 0) {
			res.Err = fmt.Errorf("%s: %d Write calls", c.Route, len(got.writes))
		}
	}
	return res
}

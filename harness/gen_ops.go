package verifharness

// gen_ops.go: rapid generators for payloads and writer-op histories.

import (
	"pgregory.net/rapid"
)

var textAlphabet = [][]byte{
	[]byte("a"), []byte("b"), []byte("x"), []byte("0"), []byte(" "), []byte("\n"), []byte("\n\n"),
	[]byte(startS), []byte(endS), []byte("×"), []byte(redS), []byte("?"), []byte("%"), []byte("\""), []byte("\\"),
	[]byte("é"), []byte("世"), []byte("😀"), []byte("\t"), []byte("-"),
	// marker look-alikes: runes that share trailing bytes with a marker
	[]byte("〺"), []byte("〹"), []byte("်"), []byte("္"), []byte("º"), []byte("¹"),
	// the decoder's error value correctly encoded, a rune sharing the markers'
	// first two bytes, non-printable but valid runes
	[]byte("\uFFFD"), []byte("\u200b"), []byte("\u00a0"), []byte("\ufeff"),
	// carriage returns next to line feeds
	[]byte("\r"), []byte("\r\n"), []byte("\n\r"),
	// control characters (DEL is the one quoting escapes that is not below 0x20)
	// (no NUL: as an element of a byte slice it is a zero, whose rendering
	// under a zero precision is empty - shape, for C02)
	[]byte("\x7f"), []byte("\x1b"),
}

// nearMarker draws three bytes that are almost a marker: one or two of its
// bytes have their top bits changed (the low six bits are what a decoder
// that does not validate continuation bytes looks at), are off by one, or
// are replaced by an ASCII byte with the same low six bits. Never a real
// marker, never a NUL.
func nearMarker(rt *rapid.T, label string) []byte {
	m := []byte(startS)
	if rapid.Bool().Draw(rt, label+"_nm_end") {
		m = []byte(endS)
	}
	m = append([]byte(nil), m...)
	nmut := rapid.IntRange(1, 2).Draw(rt, label+"_nm_n")
	for i := 0; i < nmut; i++ {
		pos := rapid.IntRange(0, 2).Draw(rt, label+"_nm_pos")
		x := []byte{0x40, 0x80, 0xC0, 0x01, 0x02, 0x10, 0x20}[rapid.IntRange(0, 6).Draw(rt, label+"_nm_x")]
		m[pos] ^= x
		if m[pos] == 0 {
			m[pos] = 0x40
		}
	}
	if string(m) == startS || string(m) == endS {
		m[2] ^= 0x40
	}
	return m
}

// genText draws a valid-UTF-8 payload over the text alphabet, with markers
// and line feeds likely at the boundaries.
func genText(rt *rapid.T, label string, maxTok int) []byte {
	return genOver(rt, label, maxTok, textAlphabet)
}

func genBytes(rt *rapid.T, label string, maxTok int) []byte {
	return genOver(rt, label, maxTok, byteAlphabet)
}

// sizeThresholds: payload sizes around which size-dependent code paths
// (initial capacity, growth steps, "large write" shortcuts, the 64 KiB
// pooling limit) may switch.
var sizeThresholds = []int{60, 64, 128, 256, 512, 1020, 1024, 2048, 4090, 4096, 8192, 16384, 32768, 65530, 65536, 70000}

func genOver(rt *rapid.T, label string, maxTok int, alpha [][]byte) []byte {
	n := rapid.IntRange(0, maxTok).Draw(rt, label+"_n")
	mode := rapid.IntRange(0, 399).Draw(rt, label+"_long")
	out := []byte{}
	extra := 0
	if len(alpha) == len(byteAlphabet) && &alpha[0] == &byteAlphabet[0] {
		extra = 1 // one more slot of the byte alphabet: a marker with one or two bytes altered
	}
	tok := func() []byte {
		k := rapid.IntRange(0, len(alpha)-1+extra).Draw(rt, label+"_t")
		if k == len(alpha) {
			return nearMarker(rt, label)
		}
		return alpha[k]
	}
	switch {
	case mode <= 12:
		// a long payload of random tokens: crosses the buffers' initial
		// 64-byte capacity and the growth steps after it
		n = rapid.IntRange(25, 140).Draw(rt, label+"_nlong")
	case mode <= 25:
		// runs of plain bytes of arbitrary length, each followed by a special
		// token: a special byte at every offset modulo any window size
		nr := rapid.IntRange(1, 5).Draw(rt, label+"_nruns")
		for i := 0; i < nr; i++ {
			l := rapid.IntRange(0, 160).Draw(rt, label+"_run")
			for j := 0; j < l; j++ {
				out = append(out, byte('a'+j%7))
			}
			out = append(out, tok()...)
		}
		return out
	case mode == 26:
		// a huge payload: filler up to a size threshold, then a few tokens
		// (the interesting bytes sit right at the threshold), then a tail
		head := rapid.IntRange(0, 3).Draw(rt, label+"_hh")
		for i := 0; i < head; i++ {
			out = append(out, tok()...)
		}
		size := sizeThresholds[rapid.IntRange(0, len(sizeThresholds)-1).Draw(rt, label+"_size")] + rapid.IntRange(-3, 3).Draw(rt, label+"_sd")
		for len(out) < size {
			out = append(out, byte('a'+len(out)%5))
		}
		tail := rapid.IntRange(0, 4).Draw(rt, label+"_ht")
		for i := 0; i < tail; i++ {
			out = append(out, tok()...)
		}
		return out
	}
	for i := 0; i < n; i++ {
		out = append(out, tok()...)
	}
	return out
}

var interestingRunes = []rune{'a', ' ', '\n', '‹', '›', '×', 'é', '世', '😀', 0, 0x7f, 0x80, 0xff, 0xFFFD, 0x10FFFF}
var invalidRunes = []rune{-1, 0xD800, 0xDBFF, 0xDC00, 0xDFFF, 0x110000, 0x7fffffff, -0x80000000}

func genRune(rt *rapid.T, label string, allowInvalid bool) rune {
	k := rapid.IntRange(0, 9).Draw(rt, label+"_rk")
	switch {
	case k <= 6:
		return interestingRunes[rapid.IntRange(0, len(interestingRunes)-1).Draw(rt, label+"_ri")]
	case k == 7 || !allowInvalid:
		return rune(rapid.IntRange(0, 0xD7FF).Draw(rt, label+"_rv"))
	default:
		return invalidRunes[rapid.IntRange(0, len(invalidRunes)-1).Draw(rt, label+"_rx")]
	}
}

func genByteVal(rt *rapid.T, label string, allowNonASCII bool) byte {
	cands := []byte{'a', ' ', '\n', '?', '0', '%', 0}
	if allowNonASCII {
		cands = append(cands, 0xE2, 0x80, 0xB9, 0xBA, 0xC3, 0xA9, 0xFF)
	}
	return cands[rapid.IntRange(0, len(cands)-1).Draw(rt, label+"_b")]
}

var floatPool = []string{"0", "-0", "1", "-1", "1.5", "-2.25", "1e21", "1e-7", "123456789", "3.141592653589793", "NaN", "+Inf", "-Inf", "5e-324", "1e20", "100000", "-NaN"}

func genFloatS(rt *rapid.T, label string) string {
	return floatPool[rapid.IntRange(0, len(floatPool)-1).Draw(rt, label+"_f")]
}

var intPool = []int64{0, 1, -1, 7, 10, 42, -42, 127, 128, 255, 256, 65, 0x2039, 0x203a, 1000000, -9223372036854775808, 9223372036854775807, 1114111, 55296,
	// code points at the edges of Unicode classes (graphic but not printable, format, private use, unassigned, replacement)
	0xA0, 0xAD, 0x7F, 0x85, 0x1680, 0x2000, 0x200B, 0x2028, 0x202F, 0x3000, 0xFEFF, 0xFFFD, 0x0378, 0xE000,
	// beyond 32 bits, with a low half that is a printable code point / a marker
	1<<32 + 'A', 1<<32 + 0x203a, 1<<40 + 'a', -(1 << 32) + 'A', 1<<31 + 'A'}

func genInt(rt *rapid.T, label string) int64 {
	if rapid.IntRange(0, 3).Draw(rt, label+"_ik") == 0 {
		return int64(rapid.IntRange(-300, 70000).Draw(rt, label+"_iv"))
	}
	return intPool[rapid.IntRange(0, len(intPool)-1).Draw(rt, label+"_ip")]
}

// opConfig selects the sub-universe of writer ops.
type opConfig struct {
	bytesAlpha     bool // byte alphabet, invalid runes, non-ASCII single bytes
	noInvalidRunes bool // exclude invalid runes (open finding F1)
	mb             bool // MB* buffer-level ops (SetMode, raw writes)
	accessors      bool // Len/Cap/String/... and Reset/Take
	ioSide         bool // Write/WriteString/WriteByte/WriteRune
	prints         bool // Print/Printf with operands
	args           func(rt *rapid.T, label string) []*Val
	maxTok         int
}

var safeWriterKinds = []string{"SafeString", "SafeInt", "SafeUint", "SafeFloat", "SafeRune", "SafeByte", "SafeBytes",
	"UnsafeString", "UnsafeRune", "UnsafeByte", "UnsafeBytes"}
var ioKinds = []string{"Write", "WriteString", "WriteByte", "WriteRune", "IOCopy", "StdFprint"}
var accessorKinds = []string{"Len", "Cap", "String", "RedactableString", "RedactableBytes", "GetMode"}
var resetKinds = []string{"Reset", "TakeS", "TakeB"}

func genOp(rt *rapid.T, cfg *opConfig) *Op {
	kinds := append([]string{}, safeWriterKinds...)
	kinds = append(kinds, "UnsafeString", "SafeString") // weight
	if cfg.ioSide {
		kinds = append(kinds, ioKinds...)
	}
	if cfg.prints {
		kinds = append(kinds, "Print", "Printf")
	}
	if cfg.mb {
		kinds = append(kinds, "MBSetMode", "MBSetMode", "MBWrite", "MBWriteString", "MBWriteByte", "MBWriteRune")
	}
	if cfg.accessors {
		kinds = append(kinds, accessorKinds...)
		kinds = append(kinds, "RedactableString", "Len")
	}
	k := kinds[rapid.IntRange(0, len(kinds)-1).Draw(rt, "op")]
	return genOpOfKind(rt, cfg, k)
}

func genPayload(rt *rapid.T, cfg *opConfig, label string) []byte {
	mt := cfg.maxTok
	if mt == 0 {
		mt = 6
	}
	if cfg.bytesAlpha {
		return genBytes(rt, label, mt)
	}
	return genText(rt, label, mt)
}

func genOpOfKind(rt *rapid.T, cfg *opConfig, k string) *Op {
	op := &Op{K: k}
	switch k {
	case "SafeString", "SafeBytes", "UnsafeString", "UnsafeBytes", "Write", "WriteString", "IOCopy", "StdFprint":
		op.S = genPayload(rt, cfg, "p")
	case "SafeInt":
		op.I = genInt(rt, "i")
	case "SafeUint":
		op.I = genInt(rt, "u")
	case "SafeFloat":
		op.F = genFloatS(rt, "f")
	case "SafeRune", "UnsafeRune", "WriteRune", "MBWriteRune":
		op.I = int64(genRune(rt, "r", cfg.bytesAlpha && !cfg.noInvalidRunes))
	case "SafeByte", "UnsafeByte", "WriteByte", "MBWriteByte":
		op.I = int64(genByteVal(rt, "b", cfg.bytesAlpha))
	case "Print":
		if cfg.args != nil {
			op.Args = cfg.args(rt, "pa")
		} else if rapid.IntRange(0, 3).Draw(rt, "prb") == 0 {
			// a pre-redacted operand (copied verbatim into the destination)
			pr := &PrintS{Args: []*Val{{K: "SafeString", S: genText(rt, "prs", 2)}, {K: "str", S: genText(rt, "pru", 2)}}}
			op.Args = []*Val{{K: pick(rt, "prk", []string{"rb", "rb", "rs"}), Pr: pr}}
			if rapid.Bool().Draw(rt, "pr2") {
				op.Args = append(op.Args, &Val{K: "str", S: genPayload(rt, cfg, "ps")})
			}
		} else {
			op.Args = []*Val{{K: "str", S: genPayload(rt, cfg, "ps")}}
		}
	case "Printf":
		if cfg.args != nil {
			op.Args = cfg.args(rt, "pfa")
		} else if rapid.IntRange(0, 4).Draw(rt, "pf0") == 0 {
			op.Args = nil // a format with no operands is still a format: "%%", reports
		} else {
			op.Args = []*Val{{K: "str", S: genPayload(rt, cfg, "pfs")}}
		}
		op.S = genSimpleFormat(rt, "pff", len(op.Args), cfg.bytesAlpha)
	case "MBSetMode":
		op.I = int64(rapid.IntRange(0, 2).Draw(rt, "mode"))
	case "MBWrite", "MBWriteString":
		// the payload is drawn now; if the buffer happens to be in raw mode
		// when the op runs, the history generator replaces it by a
		// library-produced fragment (see genHistory).
		op.S = genPayload(rt, cfg, "mp")
	}
	return op
}

// genSimpleFormat draws a format string with about nargs directives.
func genSimpleFormat(rt *rapid.T, label string, nargs int, bytesAlpha bool) []byte {
	var out []byte
	verbs := "vsdqxXvvsvsvw"
	lit := func() {
		if bytesAlpha {
			out = append(out, genBytes(rt, label+"_l", 2)...)
		} else {
			out = append(out, genText(rt, label+"_l", 2)...)
		}
	}
	for i := 0; i < nargs; i++ {
		lit()
		out = append(out, '%')
		if rapid.IntRange(0, 3).Draw(rt, label+"_fl") == 0 {
			out = append(out, "+-# 0"[rapid.IntRange(0, 4).Draw(rt, label+"_flc")])
		}
		if rapid.IntRange(0, 3).Draw(rt, label+"_w") == 0 {
			out = append(out, byte('1'+rapid.IntRange(0, 8).Draw(rt, label+"_wd")))
		}
		out = append(out, verbs[rapid.IntRange(0, len(verbs)-1).Draw(rt, label+"_v")])
	}
	lit()
	switch rapid.IntRange(0, 11).Draw(rt, label+"_mm") {
	case 5:
		// one directive more than operands: a MISSING report
		out = append(out, "%d"...)
	case 7:
		// an argument index that does not exist: a BADINDEX report
		out = append(out, "%[9]v"...)
	case 9:
		out = append(out, "%%"...)
		lit()
	case 10:
		// a lone '%' at the very end: a NOVERB report
		out = append(out, '%')
	}
	// '%' inside literals would consume operands; that is fine (chaotic), but
	// keep literals free of '%' so that the binding stays simple
	for i := range out {
		_ = i
	}
	return out
}

// genHistory draws a history of n ops. For MB raw-mode writes the
// payload is replaced by a well-formed fragment.
func genHistory(rt *rapid.T, cfg *opConfig, maxLen int) []*Op {
	n := rapid.IntRange(0, maxLen).Draw(rt, "nops")
	if rapid.IntRange(0, 39).Draw(rt, "longhist") == 0 {
		n = rapid.IntRange(maxLen, 3*maxLen+10).Draw(rt, "nopslong")
	}
	ops := make([]*Op, 0, n)
	mode := 0 // tracked only for MB raw writes
	for i := 0; i < n; i++ {
		op := genOp(rt, cfg)
		switch op.K {
		case "MBSetMode":
			mode = int(op.I)
		case "MBWrite", "MBWriteString":
			if mode == 2 {
				op.S = genFragment(rt, "frag")
			}
		case "MBWriteByte":
			if mode == 2 {
				op.I = 'r'
			}
		case "MBWriteRune":
			if mode == 2 {
				op.I = 'R'
			}
		case "Reset", "TakeS", "TakeB":
			mode = 0
		case "MBNone":
		default:
			// SafeWriter / io ops set the mode themselves on buffers
			switch op.K {
			case "SafeString", "SafeInt", "SafeUint", "SafeFloat", "SafeRune", "SafeByte", "SafeBytes":
				mode = 1
			case "UnsafeString", "UnsafeRune", "UnsafeByte", "UnsafeBytes", "Write", "WriteString", "WriteByte", "WriteRune", "IOCopy", "StdFprint":
				mode = 0
			case "Print", "Printf":
				mode = 2
			}
		}
		ops = append(ops, op)
		if cfg.mb && rapid.IntRange(0, 19).Draw(rt, "dance") == 7 {
			// pre-redacted text that ends in the first bytes of a marker, mode
			// switches with nothing written in between, then the bytes that
			// would complete the marker. (Such tails appear only here, directly
			// followed by a switch out of the raw mode: raw writes back to back -
			// a Print after it included - are one raw text, which the caller
			// keeps well-formed.)
			a, b := rapid.IntRange(0, 2).Draw(rt, "dm1"), rapid.IntRange(0, 1).Draw(rt, "dm2")
			cont := [][]byte{{0x80, 0xBA, 'x'}, {0x80, 0xB9}, {0xBA}, {0xB9, 'y'}}[rapid.IntRange(0, 3).Draw(rt, "dcont")]
			tail := []string{"ab\xe2", "a\xe2\x80"}[rapid.IntRange(0, 1).Draw(rt, "dtail")]
			ops = append(ops, &Op{K: "MBSetMode", I: 2}, &Op{K: "MBWriteString", S: B(tail)}, &Op{K: "MBSetMode", I: int64(a)}, &Op{K: "MBSetMode", I: int64(b)},
				&Op{K: "MBWrite", S: cont})
			mode = b
		}
	}
	return ops
}

// fragments: well-formed redactable pieces as the library produces them.
var fragments = []string{

	"", "safe", startS + "u" + endS, "a " + startS + "u" + endS + " b", startS + "x" + endS + "\n" + startS + "y" + endS,
	"?", startS + "?" + endS, "\n", startS + "×" + endS, startS + "u" + endS + startS + "v" + endS, "é" + startS + "世" + endS,
}

func genFragment(rt *rapid.T, label string) []byte {
	return []byte(fragments[rapid.IntRange(0, len(fragments)-1).Draw(rt, label)])
}

// genBulkOp draws a write op whose payload is filler up to one of the size
// thresholds with a few alphabet tokens near its start, middle and end:
// the buffer then sits in (or crosses into) the size class where
// size-dependent shortcuts apply.
func genBulkOp(rt *rapid.T, cfg *opConfig, label string) *Op {
	kinds := []string{"SafeString", "UnsafeString", "SafeBytes", "UnsafeBytes"}
	if cfg.ioSide {
		kinds = append(kinds, "Write", "WriteString")
	}
	alpha := textAlphabet
	if cfg.bytesAlpha {
		alpha = byteAlphabet
	}
	tok := func() []byte {
		if cfg.bytesAlpha && rapid.IntRange(0, len(alpha)).Draw(rt, label+"_bnm") == 0 {
			return nearMarker(rt, label)
		}
		return alpha[rapid.IntRange(0, len(alpha)-1).Draw(rt, label+"_bt")]
	}
	size := sizeThresholds[rapid.IntRange(0, len(sizeThresholds)-1).Draw(rt, label+"_bsize")] + rapid.IntRange(-3, 3).Draw(rt, label+"_bd")
	var out []byte
	out = append(out, tok()...)
	for len(out) < size/2 {
		out = append(out, byte('a'+len(out)%5))
	}
	out = append(out, tok()...)
	for len(out) < size {
		out = append(out, byte('a'+len(out)%5))
	}
	for i := rapid.IntRange(0, 2).Draw(rt, label+"_btail"); i > 0; i-- {
		out = append(out, tok()...)
	}
	return &Op{K: kinds[rapid.IntRange(0, len(kinds)-1).Draw(rt, label+"_bk")], S: out}
}

// Package verifharness holds the generated-input checks for the
// properties C01..C17 of cockroachdb/redact. See ../DESIGN.md.
//
// oracle.go: byte-level predicates and normal forms (DESIGN §3.1). They
// are deliberately independent of redact's own regexps.
package verifharness

import (
	"bytes"
	"unicode/utf8"
)

const (
	startS = "‹" // ‹  E2 80 B9
	endS   = "›" // ›  E2 80 BA
	redS   = "‹×›"
)

var (
	startB = []byte(startS)
	endB   = []byte(endS)
)

// markerAt reports whether a marker starts at s[i]: 0 none, 1 start, 2 end.
func markerAt(s []byte, i int) int {
	if i >= 0 && i+3 <= len(s) && s[i] == 0xE2 && s[i+1] == 0x80 {
		switch s[i+2] {
		case 0xB9:
			return 1
		case 0xBA:
			return 2
		}
	}
	return 0
}

// WF: markers strictly alternate start, end, ..., ending closed.
func WF(s []byte) bool {
	open := false
	for i := 0; i < len(s); {
		switch markerAt(s, i) {
		case 1:
			if open {
				return false
			}
			open = true
			i += 3
		case 2:
			if !open {
				return false
			}
			open = false
			i += 3
		default:
			i++
		}
	}
	return !open
}

// LS: WF and no line feed inside an envelope.
func LS(s []byte) bool {
	open := false
	for i := 0; i < len(s); {
		switch markerAt(s, i) {
		case 1:
			if open {
				return false
			}
			open = true
			i += 3
		case 2:
			if !open {
				return false
			}
			open = false
			i += 3
		default:
			if open && s[i] == '\n' {
				return false
			}
			i++
		}
	}
	return !open
}

// strip deletes every marker occurrence (single left-to-right pass).
func strip(s []byte) []byte {
	out := make([]byte, 0, len(s))
	for i := 0; i < len(s); {
		if markerAt(s, i) != 0 {
			i += 3
		} else {
			out = append(out, s[i])
			i++
		}
	}
	return out
}

// esc replaces every marker occurrence by '?'.
func esc(s []byte) []byte {
	out := make([]byte, 0, len(s))
	for i := 0; i < len(s); {
		if markerAt(s, i) != 0 {
			out = append(out, '?')
			i += 3
		} else {
			out = append(out, s[i])
			i++
		}
	}
	return out
}

func escS(s string) string { return string(esc([]byte(s))) }

// hasMarker reports whether s contains a full marker.
func hasMarker(s []byte) bool {
	for i := 0; i+3 <= len(s); i++ {
		if markerAt(s, i) != 0 {
			return true
		}
	}
	return false
}

// hasMarkerish reports whether s contains a full marker or any
// individual byte of a marker (partial marker).
func hasMarkerish(s []byte) bool {
	for _, c := range s {
		if c == 0xE2 || c == 0x80 || c == 0xB9 || c == 0xBA {
			return true
		}
	}
	return false
}

// delEnv deletes every envelope including its content (for WF input).
func delEnv(s []byte) []byte {
	out := make([]byte, 0, len(s))
	open := false
	for i := 0; i < len(s); {
		switch markerAt(s, i) {
		case 1:
			open = true
			i += 3
		case 2:
			open = false
			i += 3
		default:
			if !open {
				out = append(out, s[i])
			}
			i++
		}
	}
	return out
}

// envs returns the contents of the envelopes (for WF input).
func envs(s []byte) [][]byte {
	var out [][]byte
	open := false
	st := 0
	for i := 0; i < len(s); {
		switch markerAt(s, i) {
		case 1:
			open = true
			i += 3
			st = i
		case 2:
			if open {
				out = append(out, s[st:i])
			}
			open = false
			i += 3
		default:
			i++
		}
	}
	return out
}

// refRedact is the reference for Redact on WF input: each envelope
// becomes the redacted marker, everything else is verbatim.
func refRedact(s []byte) []byte {
	out := make([]byte, 0, len(s))
	open := false
	for i := 0; i < len(s); {
		switch markerAt(s, i) {
		case 1:
			open = true
			i += 3
		case 2:
			open = false
			out = append(out, redS...)
			i += 3
		default:
			if !open {
				out = append(out, s[i])
			}
			i++
		}
	}
	return out
}

// lfs keeps only the line feeds.
func lfs(s []byte) []byte {
	var out []byte
	for _, c := range s {
		if c == '\n' {
			out = append(out, c)
		}
	}
	return out
}

// norm deletes every "›‹" (merges adjacent envelopes).
func norm(s []byte) []byte {
	seam := []byte(endS + startS)
	for bytes.Contains(s, seam) {
		s = bytes.ReplaceAll(s, seam, nil)
	}
	return s
}

// dropEmptyEnv deletes every "‹›" (empty envelope) as well as merging
// adjacent ones; used where a property speaks of equality "up to
// merging of adjacent envelopes" and the routes differ in whether an
// empty payload opens an envelope.
func normE(s []byte) []byte {
	s = norm(s)
	empty := []byte(startS + endS)
	for bytes.Contains(s, empty) {
		s = bytes.ReplaceAll(s, empty, nil)
		s = norm(s)
	}
	return s
}

// tailInvalid: the last rune decodes as (RuneError, 1).
func tailInvalid(b []byte) bool {
	r, n := utf8.DecodeLastRune(b)
	return r == utf8.RuneError && n == 1
}

// tailTruncated: b ends in a proper prefix of a multi-byte sequence.
func tailTruncated(b []byte) bool {
	// look back up to 3 bytes for a lead byte whose sequence is incomplete
	for k := 1; k <= 3 && k <= len(b); k++ {
		c := b[len(b)-k]
		if c&0xC0 == 0x80 {
			continue // continuation byte
		}
		var need int
		switch {
		case c&0xE0 == 0xC0 && c >= 0xC2:
			need = 2
		case c&0xF0 == 0xE0:
			need = 3
		case c&0xF8 == 0xF0 && c <= 0xF4:
			need = 4
		default:
			return false
		}
		if k >= need {
			return false
		}
		// all k-1 following bytes are continuation bytes (checked above);
		// verify the prefix could still become valid.
		return !utf8.FullRune(b[len(b)-k:])
	}
	return false
}

func countByte(s []byte, c byte) int { return bytes.Count(s, []byte{c}) }

func stringsReplaceAll(s, old, new string) string {
	return string(bytes.ReplaceAll([]byte(s), []byte(old), []byte(new)))
}
func bytesContains(b []byte, c byte) bool { return bytes.IndexByte(b, c) >= 0 }

func stringsContains(s, sub string) bool { return bytes.Contains([]byte(s), []byte(sub)) }

package verifharness

import (
	"fmt"
	"testing"

	"github.com/cockroachdb/redact"
	"pgregory.net/rapid"
)

func genC13(rt *rapid.T) *C13Spec {
	cfg := &opConfig{ioSide: true, prints: true, maxTok: 4, accessors: true, mb: true}
	if rapid.Bool().Draw(rt, "bytes") {
		cfg.bytesAlpha = true
	}
	s := &C13Spec{MB: rapid.Bool().Draw(rt, "mb")}
	s.Prefix = genHistory(rt, cfg, 25)
	if rapid.IntRange(0, 24).Draw(rt, "bulk") == 7 {
		// a big buffer: accessors, Reset and Take in the size classes where
		// size-dependent shortcuts apply
		at := rapid.IntRange(0, len(s.Prefix)).Draw(rt, "bulkat")
		s.Prefix = append(append(append([]*Op(nil), s.Prefix[:at]...), genBulkOp(rt, cfg, "bulk")), s.Prefix[at:]...)
	}
	s.Reset = []string{"", "Reset", "TakeS", "TakeB"}[rapid.IntRange(0, 3).Draw(rt, "reset")]
	s.Suffix = genHistory(rt, cfg, 10)
	if rapid.Bool().Draw(rt, "grow") {
		s.Grow = []int{1, 3, 7, 64, 100}[rapid.IntRange(0, 4).Draw(rt, "growN")]
	}
	return s
}

func TestC13Acc(t *testing.T) {
	rapidCheck(t, "C13Acc", func(rt *rapid.T) interface{} { return genC13(rt) })
}

// TestEnumC13: at every buffer state reachable by <= VERIF_BOUND ops
// (same exploration as TestEnumC09) every accessor, Reset and Take is
// applied, followed by every single op as a suffix.
func TestEnumC13(t *testing.T) {
	bound := envInt("VERIF_BOUND", 2)
	insts := enumOpInstances()
	seen := map[string]bool{}
	root := &bfsNode{sb: &redact.StringBuilder{}}
	seen[sbKey(root.sb)] = true
	frontier := []*bfsNode{root}
	suffixes := []*Op{{K: "SafeString", S: B("a")}, {K: "UnsafeString", S: B("b\n")}, {K: "Print", Args: []*Val{{K: "str", S: B("c")}}}, {K: "UnsafeRune", I: '‹'}}
	var states, cases int64
	visit := func(path []*Op) {
		for _, grow := range []int{0, 100} {
			for _, acc := range []string{"Len", "Cap", "String", "RedactableString", "RedactableBytes", "GetMode"} {
				for _, suf := range suffixes {
					spec := &C13Spec{Prefix: append(append([]*Op(nil), path...), &Op{K: acc}), Suffix: []*Op{suf, {K: acc}}, Grow: grow}
					res := checks["C13Acc"].runSafely(spec)
					cases++
					col.CaseFP("C13Acc(enum)", fingerprint([]byte(fmt.Sprint(len(path), acc, grow, suf.K)))^fingerprint([]byte(sbKeyOfPath(path))), res.NonTrivial, func() interface{} { return spec }, res.Classes...)
					if res.Err != nil {
						enumFail(t, "C13Acc", spec, res.Err)
					}
				}
			}
			for _, rs := range []string{"Reset", "TakeS", "TakeB"} {
				for _, suf := range suffixes {
					spec := &C13Spec{Prefix: append(append([]*Op(nil), path...), &Op{K: "RedactableString"}), Reset: rs, Suffix: []*Op{suf}, Grow: grow}
					res := checks["C13Acc"].runSafely(spec)
					cases++
					col.CaseFP("C13Acc(enum)", fingerprint([]byte(fmt.Sprint(len(path), rs, grow, suf.K)))^fingerprint([]byte(sbKeyOfPath(path))), res.NonTrivial, func() interface{} { return spec }, res.Classes...)
					if res.Err != nil {
						enumFail(t, "C13Acc", spec, res.Err)
					}
				}
			}
		}
	}
	visit(nil)
	for depth := 1; depth <= bound; depth++ {
		var next []*bfsNode
		for _, n := range frontier {
			for _, op := range insts {
				sb := &redact.StringBuilder{Buffer: *n.sb.Buffer.VerifClone()}
				runWriterOp(&sbTarget{b: sb}, len(n.path), op, 0, nil)
				key := sbKey(sb)
				if seen[key] {
					continue
				}
				seen[key] = true
				states++
				path := append(append([]*Op(nil), n.path...), op)
				visit(path)
				if depth < bound {
					next = append(next, &bfsNode{path: path, sb: sb})
				}
			}
		}
		frontier = next
	}
	col.Exhaustive("C13Acc(enum)", fmt.Sprintf("every accessor / Reset / Take, with and without spare capacity, followed by each of %d suffix ops, at each of the %d distinct buffer states reachable by <= %d ops over %d op instances (%d cases)", len(suffixes), states+1, bound, len(insts), cases))
}

func sbKeyOfPath(path []*Op) string {
	var sb redact.StringBuilder
	runWriterOps(&sbTarget{b: &sb}, path, 0)
	return sbKey(&sb)
}

package verifharness

// evidence.go: counters, fingerprints, samples and failure files.

import (
	"encoding/binary"
	"encoding/json"
	"fmt"
	"hash/fnv"
	"os"
	"runtime/debug"
	"sort"
	"sync"
)

// Result is what a check returns for one case.
type Result struct {
	Err        error
	NonTrivial bool
	Classes    []string // class labels for the generator histogram
}

type checkDef struct {
	name    string // e.g. "C01Fmt"
	prop    string // e.g. "C01"
	newSpec func() interface{}
	run     func(spec interface{}) Result
}

var checks = map[string]*checkDef{}

func register(name, prop string, newSpec func() interface{}, run func(spec interface{}) Result) {
	checks[name] = &checkDef{name: name, prop: prop, newSpec: newSpec, run: run}
}

// runSafely runs a check, turning an escaped panic into a failure.
func (d *checkDef) runSafely(spec interface{}) (res Result) {
	defer func() {
		if r := recover(); r != nil {
			res.Err = fmt.Errorf("check %s: unexpected panic: %v\n%s", d.name, r, debug.Stack())
		}
	}()
	return d.run(spec)
}

type collector struct {
	mu         sync.Mutex
	evals      int64
	nontrivial int64
	fps        map[uint64]struct{}
	fpCap      int
	classes    map[string]int64
	excluded   map[string]int64
	samples    []json.RawMessage
	ntSamples  []json.RawMessage
	exhaustive map[string]bool
	notes      map[string]string
	perCheck   map[string]int64
}

var col = &collector{
	fps:        map[uint64]struct{}{},
	fpCap:      4 << 20,
	classes:    map[string]int64{},
	excluded:   map[string]int64{},
	exhaustive: map[string]bool{},
	notes:      map[string]string{},
	perCheck:   map[string]int64{},
}

func fingerprint(b []byte) uint64 {
	h := fnv.New64a()
	h.Write(b)
	return h.Sum64()
}

// Case records one evaluated case.
func (c *collector) Case(check string, spec interface{}, res Result) {
	c.mu.Lock()
	defer c.mu.Unlock()
	c.evals++
	c.perCheck[check]++
	for _, cl := range res.Classes {
		c.classes[check+"/"+cl]++
	}
	if !res.NonTrivial {
		if len(c.samples) < 2 {
			if js, err := json.Marshal(spec); err == nil {
				c.samples = append(c.samples, wrapSample(check, js))
			}
		}
		return
	}
	c.nontrivial++
	js, err := json.Marshal(spec)
	if err != nil {
		panic(fmt.Sprintf("spec of %s does not marshal: %v", check, err))
	}
	if len(c.fps) < c.fpCap {
		h := fnv.New64a()
		h.Write([]byte(check))
		h.Write(js)
		c.fps[h.Sum64()] = struct{}{}
	}
	// keep the first two and then every 2^k-th non-trivial case
	n := c.nontrivial
	if n <= 2 || (n&(n-1) == 0 && len(c.ntSamples) < 12) {
		c.ntSamples = append(c.ntSamples, wrapSample(check, js))
	}
}

// CaseFP records a case by a precomputed fingerprint (enumerations, where
// marshalling every element would dominate the cost).
func (c *collector) CaseFP(check string, fp uint64, nontrivial bool, sample func() interface{}, classes ...string) {
	c.mu.Lock()
	defer c.mu.Unlock()
	c.evals++
	c.perCheck[check]++
	for _, cl := range classes {
		c.classes[check+"/"+cl]++
	}
	if !nontrivial {
		return
	}
	c.nontrivial++
	if len(c.fps) < c.fpCap {
		c.fps[fp^fingerprint([]byte(check))] = struct{}{}
	}
	n := c.nontrivial
	if sample != nil && (n <= 2 || (n&(n-1) == 0 && len(c.ntSamples) < 12)) {
		if js, err := json.Marshal(sample()); err == nil {
			c.ntSamples = append(c.ntSamples, wrapSample(check, js))
		}
	}
}

func (c *collector) Excluded(what string) {
	c.mu.Lock()
	c.excluded[what]++
	c.mu.Unlock()
}

func (c *collector) Class(check, cl string) {
	c.mu.Lock()
	c.classes[check+"/"+cl]++
	c.mu.Unlock()
}

func (c *collector) Exhaustive(check string, note string) {
	c.mu.Lock()
	c.exhaustive[check] = true
	c.notes[check] = note
	c.mu.Unlock()
}

func wrapSample(check string, js []byte) json.RawMessage {
	out, _ := json.Marshal(map[string]interface{}{"check": check, "spec": json.RawMessage(js)})
	return out
}

type partialEvidence struct {
	Evaluations int64             `json:"evaluations"`
	NonTrivial  int64             `json:"nontrivial"`
	Distinct    int               `json:"distinct"`
	Classes     map[string]int64  `json:"classes"`
	Excluded    map[string]int64  `json:"excluded"`
	PerCheck    map[string]int64  `json:"per_check"`
	Samples     []json.RawMessage `json:"samples"`
	Exhaustive  map[string]bool   `json:"exhaustive"`
	Notes       map[string]string `json:"notes"`
	FPFile      string            `json:"fp_file"`
}

// Flush writes the partial evidence to $VERIF_OUT (JSON) and the
// fingerprints to $VERIF_OUT.fp (8 bytes little endian each).
func (c *collector) Flush() {
	out := os.Getenv("VERIF_OUT")
	if out == "" {
		return
	}
	c.mu.Lock()
	defer c.mu.Unlock()
	samples := append([]json.RawMessage{}, c.ntSamples...)
	samples = append(samples, c.samples...)
	pe := partialEvidence{
		Evaluations: c.evals, NonTrivial: c.nontrivial, Distinct: len(c.fps),
		Classes: c.classes, Excluded: c.excluded, PerCheck: c.perCheck,
		Samples: samples, Exhaustive: c.exhaustive, Notes: c.notes, FPFile: out + ".fp",
	}
	fps := make([]uint64, 0, len(c.fps))
	for k := range c.fps {
		fps = append(fps, k)
	}
	sort.Slice(fps, func(i, j int) bool { return fps[i] < fps[j] })
	buf := make([]byte, 8*len(fps))
	for i, v := range fps {
		binary.LittleEndian.PutUint64(buf[8*i:], v)
	}
	_ = os.WriteFile(out+".fp", buf, 0o644)
	js, _ := json.MarshalIndent(pe, "", " ")
	_ = os.WriteFile(out, js, 0o644)
}

// failureFile is the replay unit.
type failureFile struct {
	Property string          `json:"property"`
	Check    string          `json:"check"`
	Message  string          `json:"message"`
	Spec     json.RawMessage `json:"spec"`
}

// recordFailure overwrites $VERIF_FAILFILE with the current failing
// spec; rapid re-executes the minimal case last, so the last one
// written is the shrunk one.
func recordFailure(d *checkDef, spec interface{}, err error) {
	path := os.Getenv("VERIF_FAILFILE")
	if path == "" {
		return
	}
	js, e := json.Marshal(spec)
	if e != nil {
		js = []byte(`"<unmarshalable>"`)
	}
	ff := failureFile{Property: d.prop, Check: d.name, Message: err.Error(), Spec: js}
	out, _ := json.MarshalIndent(ff, "", " ")
	_ = os.WriteFile(path, out, 0o644)
}

package verifharness

import (
	"strings"
	"testing"

	"pgregory.net/rapid"
)

// verb classes: which leaf kinds are valid operands of which verbs.
type c05Class struct {
	verbs string
	leaf  func(rt *rapid.T, vc *valConfig, reg map[string]bool) *Val
}

func c05StringLeaf(rt *rapid.T, vc *valConfig, reg map[string]bool) *Val {
	k := pick(rt, "sk", []string{"str", "str", "nstr", "sstringer", "serr", "SafeString", "svstr", "svsstringer", "regstr", "regstringer", "safe", "unsafe", "embstringer"})
	switch k {
	case "safe", "unsafe":
		return &Val{K: k, Sub: []*Val{vc.leafS(rt, pick(rt, "ik", []string{"str", "nstr", "sstringer", "SafeString"}), false, false)}}
	}
	return vc.leafS(rt, k, false, false)
}

func c05IntLeaf(rt *rapid.T, vc *valConfig, reg map[string]bool) *Val {
	k := pick(rt, "ik", []string{"int", "int8", "uint", "uint16", "int64", "nint", "SafeInt", "SafeUint", "svint", "regint", "safe", "unsafe"})
	switch k {
	case "safe", "unsafe":
		return &Val{K: k, Sub: []*Val{vc.leafI(rt, pick(rt, "iik", []string{"int", "uint8", "nint"}), false)}}
	}
	return vc.leafI(rt, k, false)
}

func c05FloatLeaf(rt *rapid.T, vc *valConfig, reg map[string]bool) *Val {
	k := pick(rt, "fk", []string{"f64", "f32", "nfloat", "SafeFloat", "svfloat", "safe"}) // (complex is not atomic: "(" and "i)" are structure around two float leaves)
	if k == "safe" {
		return &Val{K: k, Sub: []*Val{vc.leafF(rt, "f64", false)}}
	}
	return vc.leafF(rt, k, false)
}

func c05BoolLeaf(rt *rapid.T, vc *valConfig, reg map[string]bool) *Val {
	if rapid.IntRange(0, 3).Draw(rt, "sb") == 0 {
		return &Val{K: "safe", Sub: []*Val{{K: "bool", I: int64(rapid.IntRange(0, 1).Draw(rt, "b"))}}}
	}
	return &Val{K: pick(rt, "bk", []string{"bool", "nbool"}), I: int64(rapid.IntRange(0, 1).Draw(rt, "b"))}
}

func c05AnyLeaf(rt *rapid.T, vc *valConfig, reg map[string]bool) *Val {
	switch rapid.IntRange(0, 8).Draw(rt, "any") {
	case 7:
		// SafeValue-marked slice / map types, nil half of the time: safe as a whole
		switch rapid.IntRange(0, 2).Draw(rt, "svc") {
		case 0:
			return &Val{K: "svmap", I: int64(rapid.IntRange(0, 2).Draw(rt, "svm"))}
		case 1:
			v := vc.leafS(rt, "svslice", true, false)
			if rapid.Bool().Draw(rt, "svnil") {
				v.S = nil
			}
			return v
		default:
			v := &Val{K: "SafeBytes", S: genText(rt, "sbytes", 2)}
			if rapid.Bool().Draw(rt, "sbnil") {
				v.S = nil
			}
			return v
		}
	case 8:
		if rapid.Bool().Draw(rt, "emb") {
			v := vc.leafS(rt, "embsafe", true, false)
			v.I = 7
			return v
		}
		return c05StringLeaf(rt, vc, reg)
	case 0, 1:
		return c05StringLeaf(rt, vc, reg)
	case 2, 3:
		return c05IntLeaf(rt, vc, reg)
	case 4:
		return c05FloatLeaf(rt, vc, reg)
	case 5:
		return c05BoolLeaf(rt, vc, reg)
	}
	return &Val{K: "nil"}
}

var c05Classes = []c05Class{
	{"v", c05AnyLeaf}, {"v", c05AnyLeaf},
	{"sqxXv", c05StringLeaf}, {"sqxX", c05StringLeaf},
	{"dboOxXcqUv", c05IntLeaf}, {"dxXc", c05IntLeaf},
	{"eEfFgGbxXv", c05FloatLeaf},
	{"tv", c05BoolLeaf},
}

// genC05Operand: a leaf or a container of leaves valid for the class.
func genC05Operand(rt *rapid.T, cl c05Class, vc *valConfig, reg map[string]bool, depth int, bare bool) *Val {
	leaf := func() *Val { return cl.leaf(rt, vc, reg) }
	k := rapid.IntRange(0, 11).Draw(rt, "shape")
	if depth == 0 && cl.verbs == "v" && reg["regstruct"] && rapid.IntRange(0, 9).Draw(rt, "preg") == 4 {
		// a top-level pointer to a registered struct: safe as a whole
		v := vc.leafS(rt, "pregstruct", true, false)
		v.I = 12
		return v
	}
	if depth == 0 && rapid.IntRange(0, 7).Draw(rt, "rvslot") == 3 {
		// the leaf inside a reflect.Value operand (made from it, or designating an interface-typed slot)
		l := leaf()
		for i := 0; i < 20 && (l.K == "nil" || l.K == "svmap" || l.K == "svslice" || l.K == "SafeBytes"); i++ {
			l = leaf() // (renderings that depend on the nesting depth)
		}
		if l.K != "nil" && l.K != "svmap" && l.K != "svslice" && l.K != "SafeBytes" {
			return &Val{K: "rvslot", I: int64(rapid.IntRange(0, 3).Draw(rt, "rvk")), Sub: []*Val{l}}
		}
	}
	if depth >= 2 && k >= 5 {
		k = 0
	}
	switch k {
	case 5, 6:
		n := rapid.IntRange(0, 3).Draw(rt, "n")
		v := &Val{K: "islice"}
		for i := 0; i < n; i++ {
			v.Sub = append(v.Sub, genC05Operand(rt, cl, vc, reg, depth+1, bare))
		}
		return v
	case 7:
		return &Val{K: "iarr2", Sub: []*Val{genC05Operand(rt, cl, vc, reg, depth+1, bare), leaf()}}
	case 8:
		return &Val{K: "structI", Sub: []*Val{leaf(), genC05Operand(rt, cl, vc, reg, depth+1, bare)}}
	case 9:
		key := leaf()
		for i := 0; i < 20 && (key.K == "svmap" || key.K == "svslice" || key.K == "SafeBytes"); i++ {
			key = leaf() // (slices and maps cannot be map keys)
		}
		if key.K == "svmap" || key.K == "svslice" || key.K == "SafeBytes" {
			key = &Val{K: "nil"}
		}
		return &Val{K: "mii", Keys: []*Val{key}, Sub: []*Val{genC05Operand(rt, cl, vc, reg, depth+1, bare)}}
	case 10:
		if bare {
			// SafeFormatter leaf: its safe methods inherit the active flags,
			// so it is used under flagless directives only
			oc := &opConfig{maxTok: 3}
			return &Val{K: "safefmt", Ops: genHistory(rt, oc, 4)}
		}
	}
	return leaf()
}

func genC05(rt *rapid.T) *FmtCase {
	c := &FmtCase{Route: []string{"Sprintf", "Sprintf", "Sprintf", "Fprintf", "Sprint", "Fprint", "SBPrintf", "SprintfnPrintf"}[rapid.IntRange(0, 7).Draw(rt, "route")]}
	reg := map[string]bool{}
	for _, k := range regKindsAll {
		if rapid.IntRange(0, 2).Draw(rt, "reg") == 0 {
			c.Reg = append(c.Reg, k)
			reg[k] = true
		}
	}
	for _, k := range []string{"str", "int"} {
		// builtin types registered as safe
		if rapid.IntRange(0, 7).Draw(rt, "regbuiltin") == 3 {
			c.Reg = append(c.Reg, k)
			reg[k] = true
		}
	}
	vc := &valConfig{maxDepth: 1}
	fc := &fmtConfig{noStar: true, noZeroMinus: true, noW: true, noTp: true, validVerbs: true, noHugeNumbers: true}
	n := rapid.IntRange(1, 3).Draw(rt, "ndirs")
	for i := 0; i < n; i++ {
		if rapid.IntRange(0, 2).Draw(rt, "haslit") > 0 {
			c.Segs = append(c.Segs, Seg{Lit: fc.genLit(rt)})
		}
		cl := c05Classes[rapid.IntRange(0, len(c05Classes)-1).Draw(rt, "class")]
		d := fc.genDirective(rt)
		d.Verb = B(string(cl.verbs[rapid.IntRange(0, len(cl.verbs)-1).Draw(rt, "verb")]))
		if !c.isPrintf() {
			d = &Directive{Verb: B("v")}
			cl = c05Classes[0]
		}
		c.Segs = append(c.Segs, Seg{Dir: d})
		arg := genC05Operand(rt, cl, vc, reg, 0, d.bare() && (string(d.Verb) == "v" || string(d.Verb) == "s"))
		if strings.Contains(d.Flags, "#") && string(d.Verb) == "v" {
			// (under %#v a struct with a promoted String method is printed field by field)
			var walk func(v *Val)
			walk = func(v *Val) {
				if v.K == "embstringer" {
					v.K = "sstringer"
				}
				for _, x := range v.Sub {
					walk(x)
				}
				for _, x := range v.Keys {
					walk(x)
				}
			}
			walk(arg)
		}
		c.Args = append(c.Args, arg)
	}
	if rapid.IntRange(0, 2).Draw(rt, "taillit") > 0 {
		c.Segs = append(c.Segs, Seg{Lit: fc.genLit(rt)})
	}
	return c
}

func TestC05Extents(t *testing.T) {
	rapidCheck(t, "C05Extents", func(rt *rapid.T) interface{} { return genC05(rt) })
}

// ---- C05Join: JoinTo prints each value like Print does ------------------------------

func genC05Join(rt *rapid.T) *C05Join {
	s := &C05Join{Shape: pick(rt, "shape", []string{"strings", "strings", "ifaces", "ints", "regstrs", "array", "errors", "nstrs"})}
	for _, k := range append(append([]string{}, regKindsAll...), "str", "int") {
		if rapid.IntRange(0, 3).Draw(rt, "reg") == 0 {
			s.Reg = append(s.Reg, k)
		}
	}
	n := rapid.IntRange(0, 4).Draw(rt, "n")
	vc := &valConfig{maxDepth: 1}
	for i := 0; i < n; i++ {
		switch s.Shape {
		case "ints":
			s.Items = append(s.Items, vc.leafI(rt, "int", false))
		case "ifaces":
			s.Items = append(s.Items, vc.genVal(rt, 1, false))
		default:
			s.Items = append(s.Items, vc.leafS(rt, "str", false, false))
		}
	}
	if rapid.Bool().Draw(rt, "safedelim") {
		s.Delim = &PrintS{HasFmt: true, Fmt: B(lit(genText(rt, "delim", 2)))}
	} else {
		s.Delim = vc.genPrintSpec(rt, 1, false)
	}
	s.Pre = genHistory(rt, &opConfig{maxTok: 2}, 2)
	return s
}

func TestC05Join(t *testing.T) {
	rapidCheck(t, "C05Join", func(rt *rapid.T) interface{} { return genC05Join(rt) })
}

// ---- C05Typed ------------------------------------------------------------------------

var c05TypedKinds = []string{"str", "nstr", "int", "nint", "regstr", "regstringer", "regint", "regstruct", "svstr", "svint", "svsstringer", "svstringer", "svstruct",
	"SafeString", "SafeInt", "sstringer", "serr", "stringer", "istringer", "f64", "embsafe", "structblank", "safe", "unsafe"}

func genC05Typed(rt *rapid.T) *C05Typed {
	s := &C05Typed{Shape: pick(rt, "shape", []string{"slice", "slice", "array", "map", "struct", "pstruct", "rvslice"})}
	for _, k := range append(append([]string{}, regKindsAll...), "str", "int") {
		if rapid.IntRange(0, 2).Draw(rt, "reg") == 0 {
			s.Reg = append(s.Reg, k)
		}
	}
	vc := &valConfig{maxDepth: 1}
	leaf := func(k string) *Val {
		switch k {
		case "int", "nint", "regint", "svint", "SafeInt", "istringer":
			return vc.leafI(rt, k, false)
		case "f64":
			return vc.leafF(rt, k, false)
		case "regstruct", "svstruct", "structblank":
			v := vc.leafS(rt, k, false, false)
			v.I = 5
			return v
		case "safe", "unsafe":
			return &Val{K: k, Sub: []*Val{vc.leafS(rt, pick(rt, "wk", []string{"str", "sstringer", "regstringer"}), false, false)}}
		case "embsafe":
			v := vc.leafS(rt, k, true, false)
			v.I = 7
			return v
		}
		return vc.leafS(rt, k, false, false)
	}
	if rapid.IntRange(0, 9).Draw(rt, "svfmt") == 0 {
		s.Shape = "svfmt"
		n := rapid.IntRange(1, 5).Draw(rt, "nsv")
		oc := &opConfig{ioSide: true, maxTok: 3}
		for i := 0; i < n; i++ {
			s.Script = append(s.Script, genOpOfKind(rt, oc, pick(rt, "svk", []string{"SafeString", "SafeInt", "SafeRune", "SafeByte", "SafeBytes",
				"UnsafeString", "UnsafeRune", "UnsafeByte", "UnsafeBytes", "Write", "WriteString", "WriteByte", "WriteRune"})))
		}
		s.Dir = (&fmtConfig{noStar: true, noW: true, noTp: true, noHugeNumbers: true}).genDirective(rt)
		if string(s.Dir.Verb) == "%" {
			s.Dir.Verb = B("v")
		}
		return s
	}
	k0 := pick(rt, "k0", c05TypedKinds)
	if rapid.IntRange(0, 7).Draw(rt, "rvro") == 0 {
		s.Shape = "rvro"
		k0 = pick(rt, "k0ro", []string{"str", "nstr", "int", "nint", "regstr", "regint", "f64", "regstruct", "structblank"})
	}
	k1 := k0
	if s.Shape == "map" || s.Shape == "struct" || s.Shape == "pstruct" {
		k1 = pick(rt, "k1", c05TypedKinds)
	}
	s.Leaves = []*Val{leaf(k0), leaf(k1)}
	s.Hidden = rapid.IntRange(0, 3).Draw(rt, "hidden") == 0
	fc := &fmtConfig{noStar: true, noZeroMinus: true, noW: true, noTp: true, noHugeNumbers: true}
	s.Dir = fc.genDirective(rt)
	// (Go syntax names the static types)
	s.Dir.Flags = strings.ReplaceAll(s.Dir.Flags, "#", "")
	if string(s.Dir.Verb) == "%" {
		s.Dir.Verb = B("v")
	}
	return s
}

func TestC05Typed(t *testing.T) {
	rapidCheck(t, "C05Typed", func(rt *rapid.T) interface{} { return genC05Typed(rt) })
}

package redact_test

import (
	"fmt"
	"reflect"
	"testing"

	"github.com/cockroachdb/redact"
)

// C05: the full rendering of every value that is a SafeValue stays visible.
type a2f5Safe int

func (a2f5Safe) SafeValue() {}

type a2f5Reg int

type a2f5Rec struct {
	id a2f5Safe // unexported
	ID a2f5Safe
}

func TestA2Finding5SafeValueInUnexportedField(t *testing.T) {
	v := a2f5Rec{1, 2}
	for _, f := range []string{"%v", "%+v", "%d"} {
		got := string(redact.Sprintf(f, v))
		if want := fmt.Sprintf(f, v); got != want {
			t.Errorf("Sprintf(%q): got %q, want %q", f, got, want)
		}
	}
	got := string(redact.Sprint(reflect.ValueOf(v).Field(0)))
	if got != "1" {
		t.Errorf("reflect.Value of unexported SafeValue field: got %q, want %q", got, "1")
	}
	// Control: a registered safe type is recognized in the same position.
	redact.RegisterSafeType(reflect.TypeOf(a2f5Reg(0)))
	if got := string(redact.Sprint(struct{ id a2f5Reg }{1})); got != "{1}" {
		t.Errorf("control: %q", got)
	}
}

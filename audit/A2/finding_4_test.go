package redact_test

import (
	"regexp"
	"testing"

	"github.com/cockroachdb/redact"
)

// C05: the complete rendering of an argument not declared safe is inside
// envelopes; deleting the envelopes leaves what fmt prints if the argument
// rendered as nothing.
func TestA2Finding4ComplexPartlyOutside(t *testing.T) {
	envelopes := regexp.MustCompile("‹[^‹›]*›")
	for _, f := range []string{"%v", "%8.2f", "%+g", "%x"} {
		for _, x := range []interface{}{complex(1.5, -2.5), complex64(complex(3, 4))} {
			got := envelopes.ReplaceAllString(string(redact.Sprintf("a="+f+";", x)), "")
			if want := "a=;"; got != want {
				t.Errorf("Sprintf(%q, %T): outside envelopes %q, want %q", "a="+f+";", x, got, want)
			}
		}
	}
}

package redact_test

import (
	"fmt"
	"testing"

	"github.com/cockroachdb/redact"
)

// C05: every value that is a SafeValue keeps its full rendering visible.
type a2f1SafeByte byte

func (a2f1SafeByte) SafeValue() {}

func TestA2Finding1SafeByteElements(t *testing.T) {
	v := []a2f1SafeByte{'A', 'B'}
	arr := [2]a2f1SafeByte{'A', 'B'}
	for _, f := range []string{"%v", "%d", "%s", "%q", "%x", "%X", "% x"} {
		for _, arg := range []interface{}{v, arr} {
			got := string(redact.Sprintf(f, arg))
			want := fmt.Sprintf(f, arg) // all leaves are SafeValues: nothing to envelope
			if got != want {
				t.Errorf("Sprintf(%q, %T): got %q, want %q", f, arg, got, want)
			}
		}
	}
}

package redact_test

import (
	"fmt"
	"strings"
	"testing"

	"github.com/cockroachdb/redact"
)

// C06: for any x without a classification of its own, Safe(x) contains no envelope.
type a2f3Struct struct{ S redact.RedactableString }

type a2f3Fmt struct{ s string }

func (d a2f3Fmt) Format(s fmt.State, verb rune) {
	if sp, ok := s.(redact.SafePrinter); ok {
		sp.Print(redact.Sprint(d.s)) // calls back into the printer
		return
	}
	fmt.Fprint(s, d.s)
}

func TestA2Finding3SafeKeepsEnvelopes(t *testing.T) {
	for _, x := range []interface{}{
		a2f3Struct{redact.Sprint("secret")},
		[]redact.RedactableString{redact.Sprint("secret")},
		a2f3Fmt{"secret"},
	} {
		got := string(redact.Sprintf("%v", redact.Safe(x)))
		if strings.ContainsAny(got, "‹›") {
			t.Errorf("Safe(%T) contains an envelope: %q", x, got)
		}
		// Control: Unsafe() does override the nested redactable.
		if u := redact.Sprintf("%v", redact.Unsafe(x)); u.Redact() != "‹×›" {
			t.Errorf("Unsafe(%T): %q", x, u)
		}
	}
}

package redact_test

import (
	"fmt"
	"testing"

	"github.com/cockroachdb/redact"
)

// C06: the rendering of Unsafe(x) is inside envelopes and "the characters
// are those fmt prints for x", also when x is a RedactableString/Bytes.
func TestA2Finding2UnsafeRedactableIgnoresDirective(t *testing.T) {
	rs := redact.RedactableString("ab")
	rb := redact.RedactableBytes("ab")
	for _, f := range []string{"%v", "%s", "%q", "%x", "%5s", "%-5s|", "%.1s"} {
		for _, x := range []interface{}{rs, rb} {
			got := redact.Sprintf(f, redact.Unsafe(x)).StripMarkers()
			want := fmt.Sprintf(f, x)
			if got != want {
				t.Errorf("Sprintf(%q, Unsafe(%T)): stripped %q, fmt prints %q", f, x, got, want)
			}
		}
	}
}

package redact_test

import (
	"errors"
	"reflect"
	"strings"
	"testing"

	"github.com/cockroachdb/redact"
)

// C15: a format with two %w must return a nil error, and the %w whose
// operand is not an error must be reported as a bad verb.
func TestB6Finding1(t *testing.T) {
	e1 := errors.New("e1")
	ops := []interface{}{
		redact.RedactableString("x"),
		redact.RedactableBytes("y"),
		reflect.ValueOf(redact.RedactableString("z")),
		redact.Safe(redact.RedactableString("q")),
		[]byte{},
		reflect.Value{},
	}
	for i, op := range ops {
		for _, swap := range []bool{false, true} {
			args := []interface{}{e1, op}
			if swap {
				args = []interface{}{op, e1}
			}
			s, err := redact.HelperForErrorf("%w %w", args...)
			if err != nil {
				t.Errorf("op#%d (%T) swap=%v: two %%w in the format, yet error %v returned (text %q)", i, op, swap, err, s)
			}
			if i < 4 && !strings.Contains(string(s), "%!w(") {
				t.Errorf("op#%d (%T) swap=%v: %%w on a non-error not reported as a bad verb: %q", i, op, swap, s)
			}
		}
	}
}

package redact_test

import (
	"errors"
	"reflect"
	"strings"
	"testing"

	"github.com/cockroachdb/redact"
)

type b6SafeList []interface{}

func (b6SafeList) SafeValue() {}

type b6Registered struct{ F interface{} }

// C06: the rendering of Unsafe(x) lies entirely inside envelopes.
func TestB6Finding2(t *testing.T) {
	redact.RegisterSafeType(reflect.TypeOf(b6Registered{}))
	hooked := false
	redact.RegisterRedactErrorFn(func(err error, p redact.SafePrinter, _ rune) {
		hooked = true
		p.SafeString(redact.SafeString(err.Error()))
	})
	defer redact.RegisterRedactErrorFn(nil)
	for _, arg := range []interface{}{
		b6SafeList{redact.Unsafe("secret")},
		b6Registered{redact.Unsafe("secret")},
		b6SafeList{redact.Unsafe(errors.New("secret"))}, // C17: hook bypassed under Unsafe()
	} {
		out := redact.Sprintf("%v", arg)
		if strings.Contains(string(out.Redact()), "secret") {
			t.Errorf("%T: Unsafe(...) printed outside envelopes: %q", arg, out)
		}
	}
	if hooked {
		t.Errorf("the error hook was called for an error under Unsafe()")
	}
}

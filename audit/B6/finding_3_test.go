package redact_test

import (
	"fmt"
	"testing"

	"github.com/cockroachdb/redact"
)

// b6Echo prints the directive it receives.
type b6Echo struct{}

func (b6Echo) Format(s fmt.State, verb rune) {
	w, wok := s.Width()
	p, pok := s.Precision()
	fmt.Fprintf(s, "%c/w=%d,%v/p=%d,%v", verb, w, wok, p, pok)
}

// b6Fwd forwards the active directive to its field with MakeFormat.
type b6Fwd struct{ x interface{} }

func (f b6Fwd) Format(s fmt.State, verb rune) {
	_, format := redact.MakeFormat(s, verb)
	fmt.Fprintf(s, format, f.x)
}

// C14: MakeFormat re-creates the same width; Safe(x)/Unsafe(x) print
// exactly like x under fmt; a forwarding formatter prints like a direct call.
func TestB6Finding3(t *testing.T) {
	for _, format := range []string{"%*d", "%*v", "%+*.2s"} {
		want := fmt.Sprintf(format, 0, b6Echo{})
		for _, w := range []interface{}{b6Fwd{b6Echo{}}, redact.Safe(b6Echo{}), redact.Unsafe(b6Echo{})} {
			if got := fmt.Sprintf(format, 0, w); got != want {
				t.Errorf("fmt %q width 0, %T: got %q, direct call prints %q", format, w, got, want)
			}
		}
		// Same with redact's own printer as the fmt.State.
		rwant := redact.Sprintf(format, 0, b6Echo{})
		if got := redact.Sprintf(format, 0, b6Fwd{b6Echo{}}); got != rwant {
			t.Errorf("redact %q width 0: got %q, direct call prints %q", format, got, rwant)
		}
	}
}

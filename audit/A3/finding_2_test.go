package redact_test

import (
	"fmt"
	"math"
	"testing"

	"github.com/cockroachdb/redact"
)

func TestA3Finding2NaNCompositeMapKeys(t *testing.T) {
	nan := math.NaN()
	type key struct {
		F float64
		I int
	}
	// fmt orders these keys deterministically (NaN compares equal to
	// NaN, then the next component decides).
	for i := 0; i < 64; i++ {
		vals := []interface{}{
			map[complex128]int{complex(nan, 1): 1, complex(nan, 2): 2, complex(nan, 3): 3},
			map[key]int{{nan, 1}: 1, {nan, 2}: 2, {nan, 3}: 3},
			map[[2]float64]int{{nan, 1}: 1, {nan, 2}: 2, {nan, 3}: 3},
		}
		for _, v := range vals {
			want := fmt.Sprintf("%v", v)
			got := redact.Sprintf("%v", v).StripMarkers()
			if got != want {
				t.Fatalf("iteration %d: fmt %q, redact %q", i, want, got)
			}
		}
	}
}

package redact_test

import (
	"fmt"
	"testing"

	"github.com/cockroachdb/redact"
)

// a3WidthReporter is an ordinary fmt.Formatter that uses the width and
// precision of its fmt.State without looking at the "ok" result
// (under fmt an absent width or precision is reported as 0).
type a3WidthReporter struct{}

func (a3WidthReporter) Format(s fmt.State, verb rune) {
	w, _ := s.Width()
	p, _ := s.Precision()
	fmt.Fprintf(s, "[%*d|w=%d p=%d]", w, 42, w, p)
}

func TestA3Finding1StaleWidthPrecision(t *testing.T) {
	cases := []struct {
		format string
		first  interface{}
	}{
		{"%7.3f|%v", 1.0},
		{"%9d %s", 1},
		{"%.5s %5v", "abcdefgh"},
	}
	for _, c := range cases {
		want := fmt.Sprintf(c.format, c.first, a3WidthReporter{})
		got := redact.Sprintf(c.format, c.first, a3WidthReporter{}).StripMarkers()
		if got != want {
			t.Errorf("%q: fmt %q, redact %q", c.format, want, got)
		}
	}
}

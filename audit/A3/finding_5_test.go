package redact_test

import (
	"errors"
	"fmt"
	"reflect"
	"testing"

	"github.com/cockroachdb/redact"
)

func TestA3Finding5WrapReflectValue(t *testing.T) {
	e := errors.New("boom")
	for _, format := range []string{"%w", "x: %[1]w"} {
		op := reflect.ValueOf(e) // not an error itself
		s, err := redact.HelperForErrorf(format, op)
		fe := fmt.Errorf(format, op)
		if s.StripMarkers() != fe.Error() {
			t.Errorf("%q: text %q, fmt.Errorf %q", format, s.StripMarkers(), fe.Error())
		}
		if want := errors.Unwrap(fe); err != want {
			t.Errorf("%q: returned error %v, Unwrap() of fmt.Errorf is %v", format, err, want)
		}
	}
}

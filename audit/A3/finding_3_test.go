package redact_test

import (
	"fmt"
	"testing"

	"github.com/cockroachdb/redact"
)

// a3Fwd forwards its directive with MakeFormat.
type a3Fwd struct{ x interface{} }

func (f a3Fwd) Format(s fmt.State, verb rune) {
	if justV, format := redact.MakeFormat(s, verb); justV {
		fmt.Fprint(s, f.x)
	} else {
		fmt.Fprintf(s, format, f.x)
	}
}

func TestA3Finding3MakeFormatNonLetterVerbs(t *testing.T) {
	cases := []struct {
		format string
		star   int
	}{
		{"%*5", 3},   // verb '5', width 3 -> MakeFormat "%35"
		{"%*0", 3},   // verb '0', width 3 -> "%30"
		{"%.*7", 2},  // verb '7', precision 2 -> "%.27"
		{"%*#", 0},   // verb '#', width 0 -> "%#"
		{"%*+", 0},   // verb '+', width 0 -> "%+"
		{"%-*-", 0},  // verb '-', width 0 -> "%--"
	}
	for _, c := range cases {
		want := fmt.Sprintf(c.format, c.star, 7)
		for name, op := range map[string]interface{}{
			"Safe": redact.Safe(7), "Unsafe": redact.Unsafe(7), "forwarder": a3Fwd{7},
		} {
			if got := fmt.Sprintf(c.format, c.star, op); got != want {
				t.Errorf("fmt %q %s(7): %q, direct: %q", c.format, name, got, want)
			}
		}
		// redact's own printer as fmt.State.
		wantR := redact.Sprintf(c.format, c.star, 7).StripMarkers()
		if got := redact.Sprintf(c.format, c.star, a3Fwd{7}).StripMarkers(); got != wantR {
			t.Errorf("redact %q forwarder: %q, direct: %q", c.format, got, wantR)
		}
	}
}

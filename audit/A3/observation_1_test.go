package redact_test

import (
	"fmt"
	"testing"

	"github.com/cockroachdb/redact"
)

// a3ByteWise writes its (valid UTF-8) text one byte per Write call, as
// a bufio.Writer or a chunking encoder layered on the fmt.State may do.
type a3ByteWise string

func (b a3ByteWise) Format(s fmt.State, verb rune) {
	for i := 0; i < len(b); i++ {
		s.Write([]byte{b[i]})
	}
}

func TestA3Observation1SplitRune(t *testing.T) {
	v := a3ByteWise("café")
	want := fmt.Sprintf("%v", v)
	if got := redact.Sprintf("%v", v).StripMarkers(); got != want {
		t.Errorf("fmt %q, redact %q", want, got)
	}
}

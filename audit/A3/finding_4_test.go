package redact_test

import (
	"fmt"
	"testing"

	"github.com/cockroachdb/redact"
)

type a3GoStringErr struct{}

func (a3GoStringErr) Error() string    { return "err-text" }
func (a3GoStringErr) GoString() string { return "gostring-text" }

func TestA3Finding4SharpW(t *testing.T) {
	e := a3GoStringErr{}
	for _, f := range [][2]string{{"%#w", "%#v"}, {"a %#15w b", "a %#15v b"}, {"%#[1]w", "%#[1]v"}} {
		s, err := redact.HelperForErrorf(f[0], e)
		if err != error(e) {
			t.Errorf("%q: returned error %v", f[0], err)
		}
		// "a correctly used %w renders exactly like %v"
		if sv := redact.Sprintf(f[1], e); s != sv {
			t.Errorf("%q gives %q but %q gives %q", f[0], s, f[1], sv)
		}
		// "the text, with markers stripped, [is] the message of fmt.Errorf"
		if want := fmt.Errorf(f[0], e).Error(); s.StripMarkers() != want {
			t.Errorf("%q: fmt.Errorf %q, redact %q", f[0], want, s.StripMarkers())
		}
	}
}

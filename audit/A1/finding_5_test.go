package redact_test

import (
	"bytes"
	"testing"

	"github.com/cockroachdb/redact"
)

// C01: "the only marker characters present in an output are the
// delimiters the library itself placed; data can never forge ... an
// envelope", for payloads with truncated UTF-8.
func TestFinding5TruncatedRedactableForgesMarker(t *testing.T) {
	rs := redact.RedactableString("a\xe2\x80") // no marker: safe text only
	if bytes.Contains([]byte(rs), redact.StartMarker()) {
		t.Fatal("input has a marker")
	}
	for _, s := range []redact.RedactableString{
		redact.Sprintf("%s\xb9b", rs),
		redact.Sprintf("%s%s", rs, redact.Safe("\xb9b")),
		redact.Sprintf("%s%s", rs.ToBytes(), redact.SafeString("\xb9b")),
	} {
		n1 := bytes.Count([]byte(s), redact.StartMarker())
		n2 := bytes.Count([]byte(s), redact.EndMarker())
		if n1 != n2 || n1 != 0 {
			t.Errorf("forged marker in %q (no operand is unsafe, no input has a marker)", s)
		}
	}
}

package redact_test

import (
	"bytes"
	"testing"

	"github.com/cockroachdb/redact"
)

// C01: every byte slice returned by the building API is well-formed.
// RedactableBytes() returns the builder's own array when nothing had to
// be appended; a later write removes the closing marker in place.
func TestFinding3RedactableBytesAliasesBuilder(t *testing.T) {
	var sb redact.StringBuilder
	sb.Print("a")
	r := sb.RedactableBytes()
	before := string(r)
	sb.UnsafeString("ZZZ")
	if string(r) != before {
		t.Errorf("slice returned by RedactableBytes changed from %q to %q", before, string(r))
	}
	if bytes.Count(r, redact.StartMarker()) != bytes.Count(r, redact.EndMarker()) {
		t.Errorf("returned slice is not well-formed any more: %q", string(r))
	}
}

package redact_test

import (
	"fmt"
	"testing"

	"github.com/cockroachdb/redact"
)

type f2Chunks []string

func (c f2Chunks) Format(s fmt.State, _ rune) {
	for _, x := range c {
		s.Write([]byte(x))
	}
}

// C10: escaping "is insensitive to how a payload was split across
// successive Write/WriteString calls made in the same mode" and "never
// alters bytes that are not part of a marker".
func TestFinding2WriteSplitSensitivity(t *testing.T) {
	for _, tc := range [][]string{
		{"\xc3", "\xa9"},     // "é" cut in two, e.g. by io.Copy or bufio
		{"\xe2\x80", "\xb9"}, // start marker cut in two
		{"caf\xc3", "\xa9 cr\xc3\xa8me"},
	} {
		whole := ""
		for _, x := range tc {
			whole += x
		}
		a := redact.Sprint(f2Chunks{whole})
		b := redact.Sprint(f2Chunks(tc))
		if a != b {
			t.Errorf("one Write: %q; split %q: %q", a, tc, b)
		}
	}
	// The consequence for fidelity with fmt.
	v := f2Chunks{"\xc3", "\xa9"}
	if got, want := redact.Sprint(v).StripMarkers(), fmt.Sprint(v); got != want {
		t.Errorf("stripped %q, fmt prints %q", got, want)
	}
}

package redact_test

import (
	"fmt"
	"strings"
	"testing"

	"github.com/cockroachdb/redact"
)

type f1SafeFn func(redact.SafePrinter)

func (f f1SafeFn) SafeFormat(p redact.SafePrinter, _ rune) { f(p) }

type f1FmtFn func(fmt.State)

func (f f1FmtFn) Format(s fmt.State, _ rune) { f(s) }

func f1WellFormed(s string) bool {
	open := false
	for i := 0; i < len(s); i++ {
		switch {
		case strings.HasPrefix(s[i:], "‹"):
			if open {
				return false
			}
			open = true
		case strings.HasPrefix(s[i:], "›"):
			if !open {
				return false
			}
			open = false
		}
	}
	return !open
}

// C11: no call may lose output that was already written (C09: each
// payload lands once). The outer SafePrinter p is still live while the
// nested p.Printf runs; a write to p from inside the nested formatter
// and the nested printer's own writes overwrite each other.
func TestFinding1OuterPrinterUsedDuringNestedPrintf(t *testing.T) {
	s := redact.Sprintfn(func(p redact.SafePrinter) {
		p.SafeString("A[")
		p.Printf("<%v>", f1SafeFn(func(q redact.SafePrinter) {
			q.SafeString("q1 ")
			p.SafeString("P-OUTER ") // outer printer, captured by the closure
			q.SafeString("q2")
		}))
		p.SafeString("]B")
	})
	for _, payload := range []string{"A[", "<", "q1 ", "P-OUTER ", "q2", ">", "]B"} {
		if !strings.Contains(string(s), payload) {
			t.Errorf("payload %q lost; output %q", payload, s)
		}
	}
}

// Same root cause, C01: the result is not even well-formed.
func TestFinding1IllFormed(t *testing.T) {
	s := redact.Sprintfn(func(p redact.SafePrinter) {
		p.SafeString("A")
		p.Print(redact.Unsafe(f1FmtFn(func(q fmt.State) {
			q.Write([]byte("abc"))
			p.SafeString("0123456789")
		})))
	})
	if !f1WellFormed(string(s)) {
		t.Errorf("ill-formed output %q", s)
	}
}

package redact_test

import (
	"reflect"
	"strings"
	"testing"

	"github.com/cockroachdb/redact"
)

type f4Level int

func (f4Level) SafeValue() {}
func (l f4Level) String() string {
	names := []string{"low", "high"}
	if int(l) >= len(names) {
		panic("secret-from-panic")
	}
	return names[l]
}

type f4Plain int

func (l f4Plain) String() string { panic("secret-from-panic") }

// C11: a panic in a user String method is "reported in place as
// %!verb(PANIC=...) with its payload treated as unsafe".
func TestFinding4PanicPayloadOfSafeOperandIsSafe(t *testing.T) {
	redact.RegisterSafeType(reflect.TypeOf(f4Plain(0)))
	for _, arg := range []interface{}{f4Level(7), f4Plain(7)} {
		s := redact.Sprintf("x=%v", arg)
		if !strings.Contains(string(s), "PANIC=") {
			t.Fatalf("no panic report: %q", s)
		}
		if r := s.Redact(); strings.Contains(string(r), "secret-from-panic") {
			t.Errorf("%T: panic payload survives redaction: %q", arg, r)
		}
	}
}

package redact_test

import (
	"strings"
	"testing"

	"github.com/cockroachdb/redact"
)

// wellFormedB1 reports whether s is safe text interleaved with
// strictly alternating, non-nested ‹...› envelopes.
func wellFormedB1(s string) bool {
	open := false
	for i := 0; i < len(s); i++ {
		switch {
		case strings.HasPrefix(s[i:], "‹"):
			if open {
				return false
			}
			open = true
		case strings.HasPrefix(s[i:], "›"):
			if !open {
				return false
			}
			open = false
		}
	}
	return !open
}

// An unsafe payload ends a line with a truncated multi-byte sequence.
// C03 promises that each line of the output is a redactable on its
// own. Printing such a line again, followed by an unsafe value that
// starts with the missing byte of a marker, lets the data close (or
// open) an envelope.
func TestFindingB1_1_LineTailCompletesMarker(t *testing.T) {
	out := redact.Sprint("\xe2\x80\nrest")
	lines := strings.Split(string(out), "\n")
	for _, l := range lines {
		if !wellFormedB1(l) {
			t.Fatalf("precondition: line %q of %q is not well-formed", l, out)
		}
	}
	line := redact.RedactableString(lines[0]) // "‹\xe2\x80›"

	// Data forges a closing marker: the rest of the unsafe value leaks.
	got := redact.Sprint(line, "\xbaSECRET")
	if !wellFormedB1(string(got)) {
		t.Errorf("Sprint(%q, %q) = %q: not well-formed", line, "\xbaSECRET", got)
	}
	if r := got.Redact(); strings.Contains(string(r), "SECRET") {
		t.Errorf("redacted output %q contains the unsafe payload", r)
	}

	// Data forges an opening marker: nested envelope.
	got = redact.Sprintf("%s%s", line, "\xb9x")
	if !wellFormedB1(string(got)) {
		t.Errorf("Sprintf(%%s%%s, %q, %q) = %q: not well-formed", line, "\xb9x", got)
	}

	// Same through a StringBuilder.
	var sb redact.StringBuilder
	sb.Print(line)
	sb.UnsafeString("\xbaSECRET")
	if s := sb.RedactableString(); !wellFormedB1(string(s)) {
		t.Errorf("StringBuilder: %q: not well-formed", s)
	}
}

package redact_test

import (
	"fmt"
	"strings"
	"testing"

	"github.com/cockroachdb/redact"
)

// C04: StripMarkers(redact.Sprintf(f, a...)) must equal fmt.Sprintf(f, a...)
// (marker characters replaced by '?') "for all format strings".
// A format literal that ends in a truncated UTF-8 sequence right before
// a directive (or at the end of the format) gets an extra '?' appended.
func TestD2Finding1InvalidUTF8FormatLiteral(t *testing.T) {
	for _, f := range []string{"\xc3%d", "%d\xff", "caf\xc3%v\xa9", "\xe2\x80%d"} {
		want := fmt.Sprintf(f, 1)
		want = strings.NewReplacer("‹", "?", "›", "?").Replace(want)
		got := redact.Sprintf(f, 1).StripMarkers()
		if got != want {
			t.Errorf("format %q: fmt %q, redact (stripped) %q", f, want, got)
		}
	}
}

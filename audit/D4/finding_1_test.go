package redact_test

import (
	"regexp"
	"strings"
	"testing"

	"github.com/cockroachdb/redact"
)

// C07: "On every well-formed redactable string ... StripMarkers() removes
// exactly the delimiters and nothing else."
func TestD4Finding1StripDeletesData(t *testing.T) {
	// A line of an earlier output (C03: each line is redactable alone).
	first := redact.Sprint("a\xe2\nb") // ‹a\xe2›\n‹b›
	line := redact.RedactableString(strings.Split(string(first), "\n")[0])
	if line != "‹a\xe2›" {
		t.Logf("line = %q", line)
	}
	// Printed again, followed by safe text (here: the format literal).
	out := redact.Sprintf("%v\x80\xb9z", line)

	// The output is well formed: envelopes and safe text alternate.
	env := regexp.MustCompile("‹[^‹›]*›")
	rest := env.ReplaceAllString(string(out), "")
	if strings.ContainsAny(rest, "‹›") {
		t.Fatalf("output not well-formed: %q", out)
	}
	// Removing exactly the delimiters of its envelopes.
	want := env.ReplaceAllStringFunc(string(out), func(e string) string {
		return e[len("‹") : len(e)-len("›")]
	})
	got := out.StripMarkers()
	if strings.ContainsAny(want, "‹›") {
		t.Errorf("removing the delimiters of %q leaves a marker: %q", out, want)
	}
	if got != want {
		t.Errorf("StripMarkers(%q) = %q, want %q (data bytes deleted)", out, got, want)
	}
	if gotB := string(out.ToBytes().StripMarkers()); gotB != want {
		t.Errorf("RedactableBytes.StripMarkers(%q) = %q, want %q", out, gotB, want)
	}
}

package redact_test

import (
	"math"
	"testing"

	"github.com/cockroachdb/redact"
)

// C12: "The value returned by a printing call is a function of its
// format and arguments alone". The same map printed repeatedly must
// give the same string.
func TestB5Finding1SeveralNaNKeys(t *testing.T) {
	nan := math.NaN()
	m := map[float64]redact.SafeInt{}
	for i := 0; i < 8; i++ {
		m[nan] = redact.SafeInt(i) // 8 distinct entries: NaN != NaN
	}
	first := redact.Sprint(m)
	for i := 0; i < 200; i++ {
		if got := redact.Sprint(m); got != first {
			t.Fatalf("same call, same argument, different results:\n  %s\n  %s\nredacted:\n  %s\n  %s",
				first, got, first.Redact(), got.Redact())
		}
	}
}

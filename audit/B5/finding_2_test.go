package redact_test

import (
	"testing"

	"github.com/cockroachdb/redact"
)

type b5Keeper struct{ saved *redact.SafePrinter }

func (k b5Keeper) SafeFormat(p redact.SafePrinter, _ rune) { *k.saved = p; p.SafeString("k") }

// C12: a print call's result "is unaffected by any earlier calls in the
// process". The probe Sprint("x") must return ‹x› whatever happened before.
func TestB5Finding2StalePrinter(t *testing.T) {
	const want = redact.RedactableString("‹x›")
	t.Run("Sprintfn", func(t *testing.T) {
		for i := 0; i < 20; i++ {
			var saved redact.SafePrinter
			_ = redact.Sprintfn(func(w redact.SafePrinter) { saved = w })
			// The call above has returned; its printer is back in the pool.
			saved.UnsafeString("secret")
			if got := redact.Sprint("x"); got != want {
				t.Fatalf("probe returned %q, want %q", got, want)
			}
		}
	})
	t.Run("SafeFormat", func(t *testing.T) {
		for i := 0; i < 20; i++ {
			var saved redact.SafePrinter
			_ = redact.Sprint(b5Keeper{&saved})
			saved.SafeString("LEAK ")
			if got := redact.Sprint("x"); got != want {
				t.Fatalf("probe returned %q, want %q", got, want)
			}
		}
	})
}

package redact_test

import (
	"regexp"
	"testing"

	"github.com/cockroachdb/redact"
)

// C09: with envelopes deleted a StringBuilder holds only the payloads of
// the safe calls. Here a safe call is made on the builder by a String
// method while the builder's own Print is running.
type a5f5 struct{ b *redact.StringBuilder }

func (r a5f5) String() string { r.b.SafeString("y"); return "secret" }

func TestA5Finding5ReentrantStringBuilderPrint(t *testing.T) {
	var b redact.StringBuilder
	b.Print(a5f5{&b})
	got := b.RedactableString()
	if s := regexp.MustCompile("‹[^‹›]*›").ReplaceAllString(string(got), ""); s != "y" {
		t.Errorf("output without envelopes is %q, want %q (full: %q)", s, "y", got)
	}
	if r := got.Redact(); r != "y‹×›" {
		t.Errorf("Redact() = %q, want %q", r, "y‹×›")
	}
}

package redact_test

import (
	"testing"

	"github.com/cockroachdb/redact"
)

// C13: what an accessor returned earlier is never modified by later writes.
func TestA5Finding3RedactableBytesAliased(t *testing.T) {
	var b redact.StringBuilder
	b.Print(redact.Sprint("a")) // buffer holds ‹a›
	rb := b.RedactableBytes()
	before := string(rb)
	b.UnsafeString("b") // later write
	if string(rb) != before {
		t.Errorf("RedactableBytes result changed from %q to %q after a later write", before, rb)
	}

	var c redact.StringBuilder
	c.SafeString("abc")
	rb = c.RedactableBytes()
	c.Reset()
	c.SafeString("xyz")
	if string(rb) != "abc" {
		t.Errorf("RedactableBytes result changed from %q to %q after Reset+write", "abc", rb)
	}
}

package redact_test

import (
	"regexp"
	"testing"
	"unicode/utf8"

	"github.com/cockroachdb/redact"
)

// C09: every payload sent to the SafePrinter handed to SafeFormat lands
// once, in order, and the result is well-formed - here one of the calls
// is made while a Print on the same SafePrinter is still running.
type a5f4outer struct{}
type a5f4inner struct{ outer redact.SafePrinter }

func (a5f4outer) SafeFormat(p redact.SafePrinter, _ rune) {
	p.SafeString("A")
	p.Print(a5f4inner{p})
	p.SafeString("D")
}
func (i a5f4inner) SafeFormat(q redact.SafePrinter, _ rune) {
	q.SafeString("B")
	i.outer.UnsafeString("XXXX") // call on the outer SafePrinter
	q.SafeString("C")
}

func TestA5Finding4ReentrantSafePrinter(t *testing.T) {
	got := redact.Sprint(a5f4outer{})
	if !utf8.ValidString(string(got)) {
		t.Errorf("output is not valid UTF-8 (truncated marker): %q", got)
	}
	if s := got.StripMarkers(); s != "ABXXXXCD" {
		t.Errorf("stripped output %q, want %q", s, "ABXXXXCD")
	}
	if s := regexp.MustCompile("‹[^‹›]*›").ReplaceAllString(string(got), ""); s != "ABCD" {
		t.Errorf("output without envelopes %q, want %q (full: %q)", s, "ABCD", got)
	}
}

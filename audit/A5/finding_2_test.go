package redact_test

import (
	"fmt"
	"testing"

	"github.com/cockroachdb/redact"
)

// C12: the result of a print call must not depend on earlier calls.
type a5f2 struct{}

func (a5f2) Format(s fmt.State, _ rune) {
	w, _ := s.Width()
	p, _ := s.Precision()
	fmt.Fprintf(s, "w=%d p=%d", w, p)
}

func TestA5Finding2StaleWidthPrecision(t *testing.T) {
	want := "w=0 p=0" // fresh process, and fmt.Sprintf("%v", a5f2{})
	if f := fmt.Sprintf("%v", a5f2{}); f != want {
		t.Fatalf("fmt: %q", f)
	}
	for i := 0; i < 20; i++ {
		_ = redact.Sprintf("%9.4f", 1.0) // earlier, unrelated call
		for _, got := range []string{
			redact.Sprintf("%v", a5f2{}).StripMarkers(),
			redact.Sprint(a5f2{}).StripMarkers(),
		} {
			if got != want {
				t.Fatalf("probe after Sprintf(%%9.4f): got %q, want %q", got, want)
			}
		}
	}
}

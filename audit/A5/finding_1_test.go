package redact_test

import (
	"testing"

	"github.com/cockroachdb/redact"
)

// C09: the same SafeWriter call sequence must give the same text on a
// StringBuilder and on the SafePrinter handed to SafeFormat, namely the
// concatenation of the payloads.
func a5f1Seq(w redact.SafeWriter) {
	w.SafeString("a")
	w.SafeInt(5)
	w.SafeUint(6)
	w.SafeFloat(1.5)
	w.UnsafeString("u")
}

type a5f1 struct{}

func (a5f1) SafeFormat(p redact.SafePrinter, _ rune) { a5f1Seq(p) }

func TestA5Finding1SafeIntInheritsDirectiveFlags(t *testing.T) {
	var b redact.StringBuilder
	a5f1Seq(&b)
	want := b.RedactableString() // a561.5‹u›
	for _, f := range []string{"%v", "%d", "%6d", "%+d", "%06d", "%.3d", "% d", "%-4d", "%6.2f"} {
		if got := redact.Sprintf(f, a5f1{}); got != want {
			t.Errorf("Sprintf(%q): SafePrinter gives %q, StringBuilder gives %q (payload concatenation %q)",
				f, got, want, "a561.5u")
		}
	}
}

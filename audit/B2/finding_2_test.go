package redact_test

import (
	"testing"

	"github.com/cockroachdb/redact"
)

// C02: two calls with the same format and operands that differ only in the
// content of an unsafe int (same type, same shape, no strings/containers
// whose emptiness or line breaks could differ) must be identical after
// Redact(). A precision of 0 makes the integer 0 render as nothing, and the
// library then emits no envelope at all, so the redacted output tells
// whether the unsafe number was zero.
func TestAuditB2ZeroPrecisionRevealsZero(t *testing.T) {
	for _, f := range []string{"n=%.0d|", "n=%.0x|", "n=%+.0d|", "v=%.0d|"} {
		a := redact.Sprintf(f, 0).Redact()
		b := redact.Sprintf(f, 7).Redact()
		if a != b {
			t.Errorf("format %q: redacted output depends on the unsafe int: 0 -> %q, 7 -> %q", f, a, b)
		}
	}
	// Same inside a container: which elements are zero is visible.
	a := redact.Sprintf("%.0d", []int{0, 5, 0}).Redact()
	b := redact.Sprintf("%.0d", []int{5, 0, 5}).Redact()
	if a != b {
		t.Errorf("[]int under %%.0d: %q vs %q", a, b)
	}
}

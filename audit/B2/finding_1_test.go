package redact_test

import (
	"fmt"
	"reflect"
	"testing"

	"github.com/cockroachdb/redact"
)

// C05: "the full rendering ... of every value that is ... of a registered
// safe type" must stay outside envelopes, "for all sets of types registered
// with RegisterSafeType". With uint8 registered, the bytes of a []byte are
// visible everywhere except when the []byte is a top-level operand.
func TestAuditB2RegisteredByteInTopLevelByteSlice(t *testing.T) {
	redact.RegisterSafeType(reflect.TypeOf(uint8(0)))
	// NB: the registry has no public way to unregister; run this test on its
	// own (-run TestAuditB2RegisteredByte) so it does not affect other tests.

	b := []byte{1, 2}
	// Controls: the same bytes one level down are visible (these pass).
	if got, want := string(redact.Sprintf("%v", struct{ B []byte }{b})), "{[1 2]}"; got != want {
		t.Fatalf("control (struct field): got %q want %q", got, want)
	}
	if got, want := string(redact.Sprintf("%v", [2]byte{1, 2})), "[1 2]"; got != want {
		t.Fatalf("control (array): got %q want %q", got, want)
	}
	for _, f := range []string{"%v", "%d", "%#v", "%3v"} {
		want := fmt.Sprintf(f, b) // all leaves are declared safe: no envelope expected
		if got := string(redact.Sprintf(f, b)); got != want {
			t.Errorf("Sprintf(%q, []byte{1,2}) with uint8 registered: got %q, want %q", f, got, want)
		}
	}
	if got, want := string(redact.Sprint(b)), "[1 2]"; got != want {
		t.Errorf("Sprint([]byte{1,2}) with uint8 registered: got %q, want %q", got, want)
	}
}

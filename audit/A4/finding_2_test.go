package redact_test

import (
	"testing"

	"github.com/cockroachdb/redact"
)

// C08: re-printing a redactable is the identity, and Sprintf of
// redactables is their plain concatenation with the format literals.
func TestAuditA4Finding2(t *testing.T) {
	// (a) A redactable obtained from a ManualBuffer in raw-safe mode
	// (mode 2: safe, caller guarantees absence of markers) that ends
	// in a truncated UTF-8 sequence.
	var mb redact.ManualBuffer
	mb.SetMode(2)
	mb.WriteString("a\xe2")
	rs := mb.RedactableString() // "a\xe2": safe text only, well-formed
	if got := redact.Sprint(rs); got != rs {
		t.Errorf("Sprint(%q) = %q, want it unchanged", rs, got)
	}
	if got := redact.Join("", []redact.RedactableString{rs}); got != rs {
		t.Errorf("Join of the single %q = %q, want it unchanged", rs, got)
	}

	// (b) Format literal ending in a truncated sequence between two
	// ordinary redactables.
	r2 := redact.Sprintf("a%s", "b") // a‹b›
	if got, want := redact.Sprintf("%s\xe2%s", r2, r2), r2+"\xe2"+r2; got != want {
		t.Errorf("Sprintf = %q, want plain concatenation %q", got, want)
	}
}

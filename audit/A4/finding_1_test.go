package redact_test

import (
	"strings"
	"testing"

	"github.com/cockroachdb/redact"
)

// C08: a redactable passed back into a printing function must be
// reproduced unchanged, and Redact must distribute over the composition.
func TestAuditA4Finding1(t *testing.T) {
	rs := redact.Sprintf("a%s", "b") // a‹b›
	u := redact.Sprint("u")          // ‹u›

	for _, tc := range []struct {
		name string
		got  redact.RedactableString
	}{
		{"Sprintf", redact.Sprintf("%s%s", rs, "u")},
		{"Sprint", redact.Sprint(rs, "u")},
		{"Sprintf %v%d", redact.Sprintf("%v%d", rs, 7)},
	} {
		if !strings.HasPrefix(string(tc.got), string(rs)) {
			t.Errorf("%s: re-printed redactable %q not reproduced unchanged in %q", tc.name, rs, tc.got)
		}
	}
	got := redact.Sprintf("%s%s", rs, "u")
	if want := rs.Redact() + u.Redact(); got.Redact() != want {
		t.Errorf("Redact does not distribute: got %q, want %q", got.Redact(), want)
	}

	// An empty envelope obtained from the library disappears altogether.
	e := redact.EscapeBytes(nil) // ‹›
	got = redact.Sprintf("%s%s", e, "")
	if !strings.Contains(string(got), string(e)) {
		t.Errorf("re-printed redactable %q vanished: output %q", e, got)
	}
	if want := e.Redact().ToString() + redact.Sprint("").Redact(); got.Redact() != want {
		t.Errorf("Redact does not distribute: got %q, want %q", got.Redact(), want)
	}
}

package redact_test

import (
	"strings"
	"testing"

	"github.com/cockroachdb/redact"
)

// C08: a redactable obtained from the library (EscapeBytes of a
// newline-terminated payload ends with an empty envelope) is not
// reproduced unchanged when the operand that follows it is unsafe and
// renders as nothing.
func TestD3Finding1EmptyEnvelopeVanishes(t *testing.T) {
	rs := redact.EscapeBytes([]byte("a\n")).ToString() // ‹a›\n‹›
	if got := redact.Sprint(rs); got != rs {
		t.Fatalf("alone: %q != %q", got, rs)
	}
	empty := redact.Sprintf("%s", "") // what an empty unsafe string prints as: nothing
	want := rs + empty

	got := redact.Sprintf("%s%s", rs, "")
	if !strings.HasPrefix(string(got), string(rs)) {
		t.Errorf("Sprintf(%%s%%s, rs, \"\") = %q does not reproduce rs = %q", got, rs)
	}
	if got != want {
		t.Errorf("Sprintf = %q, want plain concatenation %q", got, want)
	}
	if got.Redact() != rs.Redact()+empty.Redact() {
		t.Errorf("Redact does not distribute: %q vs %q", got.Redact(), rs.Redact()+empty.Redact())
	}

	var b redact.StringBuilder
	b.Print(rs)
	b.UnsafeString("")
	if got := b.RedactableString(); got != rs {
		t.Errorf("StringBuilder: %q, want %q", got, rs)
	}
}

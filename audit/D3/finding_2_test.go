package redact_test

import (
	"reflect"
	"strings"
	"testing"

	"github.com/cockroachdb/redact"
)

// C06: with the (unexported) type of the Unsafe() wrapper registered as
// a safe type, a top-level Unsafe(x) is printed without any envelope.
// NB: RegisterSafeType cannot be undone; run this test alone.
func TestD3Finding2RegisteredUnsafeWrapper(t *testing.T) {
	redact.RegisterSafeType(reflect.TypeOf(redact.Unsafe(0)))

	nested := redact.Sprint([]interface{}{redact.Unsafe("secret")})
	if nested != "[‹secret›]" {
		t.Errorf("nested: %q", nested)
	}
	for _, got := range []redact.RedactableString{
		redact.Sprint(redact.Unsafe("secret")),
		redact.Sprintf("%q", redact.Unsafe("secret")),
		redact.Sprint(redact.Unsafe(redact.Safe("secret"))),
	} {
		if strings.Contains(string(got.Redact()), "secret") {
			t.Errorf("Unsafe(x) printed outside envelopes: %q", got)
		}
	}
}

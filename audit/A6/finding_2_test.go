package redact_test

import (
	"fmt"
	"reflect"
	"testing"

	"github.com/cockroachdb/redact"
)

type a6Point struct{ A int }

// C06: the rendering of Unsafe(x) / Safe(x) has the characters fmt prints for x.
// Here the wrapper is held by a reflect.Value operand, which fmt prints
// as the value it holds.
func TestA6WrapperInReflectValue(t *testing.T) {
	x := &a6Point{1}
	for _, f := range []string{"%v", "%+v", "%s", "%d"} {
		want := fmt.Sprintf(f, reflect.ValueOf(x)) // &{1}, &{A:1}, &{%!s(int=1)}, &{1}
		if got := redact.Sprintf(f, reflect.ValueOf(redact.Unsafe(x))); got.StripMarkers() != want {
			t.Errorf("%s Unsafe: got %q, fmt prints %q", f, got, want)
		}
		if got := redact.Sprintf(f, reflect.ValueOf(redact.Safe(x))); string(got) != want {
			t.Errorf("%s Safe: got %q, fmt prints %q", f, got, want)
		}
	}
	// Same operand, nil inside: the top-level wrapper reports the bad verb, the
	// reflect.Value one does not.
	top := redact.Sprintf("%s", redact.Unsafe(nil))
	rv := redact.Sprintf("%s", reflect.ValueOf(redact.Unsafe(nil)))
	if top != rv {
		t.Errorf("Unsafe(nil) %%s: top level %q, in reflect.Value %q", top, rv)
	}
}

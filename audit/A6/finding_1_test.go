package redact_test

import (
	"errors"
	"strings"
	"testing"

	"github.com/cockroachdb/redact"
)

type a6PanicStringer struct{ payload interface{} }

func (p a6PanicStringer) String() string { panic(p.payload) }

// C11: "reported in place as %!verb(PANIC=...) with its payload treated as unsafe".
func TestA6PanicPayloadIsUnsafe(t *testing.T) {
	for _, payload := range []interface{}{
		redact.Safe("SECRET"),
		redact.SafeString("SECRET"),
	} {
		s := redact.Sprintf("x %v y", a6PanicStringer{payload})
		if red := string(s.Redact()); strings.Contains(red, "SECRET") {
			t.Errorf("payload %T: panic payload outside of envelopes: %q (redacted: %q)", payload, s, red)
		}
	}
}

// C17: "a panic in the hook is contained like any other method panic".
func TestA6HookPanicContained(t *testing.T) {
	redact.RegisterRedactErrorFn(func(err error, p redact.SafePrinter, verb rune) {
		p.SafeString("H[")
		var m map[string]int
		m["a"] = 1 // a bug in the hook: panics with a runtime.Error
	})
	defer redact.RegisterRedactErrorFn(nil)
	defer func() {
		if r := recover(); r != nil {
			t.Errorf("panic of the hook escaped from Sprintf: %v", r)
		}
	}()
	s := redact.Sprintf("x %v y", errors.New("e"))
	if !strings.Contains(string(s), "PANIC=") || !strings.HasSuffix(string(s), " y") {
		t.Errorf("unexpected output %q", s)
	}
}

package redact_test

import (
	"fmt"
	"strings"
	"testing"

	"github.com/cockroachdb/redact"
)

type a6Fmt struct{}

// A plain fmt.Formatter (no SafeValue/SafeFormatter/... classification)
// that discovers the SafePrinter behind its fmt.State.
func (a6Fmt) Format(st fmt.State, verb rune) {
	if sp, ok := st.(redact.SafePrinter); ok {
		sp.Print(redact.Sprint("secret"))
		return
	}
	fmt.Fprint(st, "secret")
}

// C06: "For any x without a classification of its own, the rendering of
// Safe(x) contains no envelope".
func TestA6SafeContainsNoEnvelope(t *testing.T) {
	inner := redact.Sprint("secret") // ‹secret›
	for _, x := range []interface{}{
		[]interface{}{inner},
		struct{ A interface{} }{inner},
		map[string]interface{}{"k": inner},
		a6Fmt{},
	} {
		s := redact.Sprint(redact.Safe(x))
		if strings.Contains(string(s), string(redact.StartMarker())) {
			t.Errorf("Safe(%T) contains an envelope: %q", x, s)
		}
	}
}

"""Per-property plans for ./check: which harness tests run in which tier, and
the evidence texts (rule, assumptions)."""

PLAN = {
    "C12": {
        "quick": [
            {"kind": "rapid", "test": "TestC12Hist", "checks": 3000, "timeout": 900},
            {"kind": "rapid", "test": "TestC12FreshProcess", "checks": 1500, "timeout": 900},
            {"kind": "rapid", "test": "TestC12Conc", "checks": 800, "timeout": 900},
            {"kind": "rapid", "test": "TestC12Conc", "checks": 250, "race": True, "salt": 1, "timeout": 900},
            {"kind": "enum", "test": "TestC12SharedBuilder", "race": True, "timeout": 600},
            {"kind": "enum", "test": "TestEnumFirstUse", "env": {"VERIF_FIRSTUSE_PROP": "C12"}, "timeout": 600},
            {"kind": "enum", "test": "TestEnumFirstUse", "race": True, "env": {"VERIF_FIRSTUSE_PROP": "C12", "VERIF_FIRSTUSE_CONC": 1}, "timeout": 600},
        ],
        "thorough": [
            {"kind": "rapid", "test": "TestC12Hist", "checks": 20000, "shards": 16, "timeout": 3000},
            {"kind": "rapid", "test": "TestC12FreshProcess", "checks": 20000, "shards": 4, "timeout": 3000},
            {"kind": "rapid", "test": "TestC12Conc", "checks": 3000, "shards": 8, "timeout": 3000},
            {"kind": "rapid", "test": "TestC12Conc", "checks": 1200, "shards": 8, "race": True, "salt": 1, "timeout": 3000},
            {"kind": "enum", "test": "TestC12SharedBuilder", "race": True, "timeout": 600},
            {"kind": "enum", "test": "TestEnumFirstUse", "env": {"VERIF_FIRSTUSE_PROP": "C12"}, "timeout": 600},
            {"kind": "enum", "test": "TestEnumFirstUse", "race": True, "env": {"VERIF_FIRSTUSE_PROP": "C12", "VERIF_FIRSTUSE_CONC": 1}, "timeout": 600},
            {"kind": "fuzz", "test": "FuzzC12", "time": 60},
        ],
    },
    "C05": {
        "quick": [
            {"kind": "rapid", "test": "TestC05Extents", "checks": 100000},
            {"kind": "rapid", "test": "TestC05Join", "checks": 30000},
            {"kind": "rapid", "test": "TestC05Typed", "checks": 40000},
        ],
        "thorough": [
            {"kind": "rapid", "test": "TestC05Extents", "checks": 400000, "shards": 16},
            {"kind": "rapid", "test": "TestC05Join", "checks": 200000, "shards": 8},
            {"kind": "rapid", "test": "TestC05Typed", "checks": 300000, "shards": 8},
            {"kind": "fuzz", "test": "FuzzC05", "time": 60},
            {"kind": "fuzz", "test": "FuzzC05Typed", "time": 45},
        ],
    },
    "C06": {
        "quick": [
            {"kind": "rapid", "test": "TestC06Wrap", "checks": 100000},
        ],
        "thorough": [
            {"kind": "rapid", "test": "TestC06Wrap", "checks": 400000, "shards": 16},
            {"kind": "fuzz", "test": "FuzzC06", "time": 60},
        ],
    },
    "C17": {
        "quick": [
            {"kind": "rapid", "test": "TestC17Hook", "checks": 100000},
        ],
        "thorough": [
            {"kind": "rapid", "test": "TestC17Hook", "checks": 400000, "shards": 16},
            {"kind": "fuzz", "test": "FuzzC17", "time": 60},
        ],
    },
    "C08": {
        "quick": [
            {"kind": "rapid", "test": "TestC08Compose", "checks": 40000},
            {"kind": "rapid", "test": "TestC08Lines", "checks": 40000},
        ],
        "thorough": [
            {"kind": "rapid", "test": "TestC08Compose", "checks": 150000, "shards": 16},
            {"kind": "rapid", "test": "TestC08Lines", "checks": 400000, "shards": 8},
            {"kind": "fuzz", "test": "FuzzC08", "time": 60},
        ],
    },
    "C15": {
        "quick": [
            {"kind": "rapid", "test": "TestC15Errorf", "checks": 100000},
        ],
        "thorough": [
            {"kind": "rapid", "test": "TestC15Errorf", "checks": 400000, "shards": 16},
            {"kind": "fuzz", "test": "FuzzC15", "time": 60},
        ],
    },
    "C16": {
        "quick": [
            {"kind": "rapid", "test": "TestC16Routes", "checks": 50000},
        ],
        "thorough": [
            {"kind": "rapid", "test": "TestC16Routes", "checks": 200000, "shards": 16},
            {"kind": "fuzz", "test": "FuzzC16", "time": 60},
        ],
    },
    "C11": {
        "quick": [
            {"kind": "enum", "test": "TestEnumC11Runes", "env": {"VERIF_RUNE_STEP": 1}, "timeout": 600},
            {"kind": "rapid", "test": "TestC11Edge", "checks": 40000},
            {"kind": "rapid", "test": "TestC11Join", "checks": 20000},
            {"kind": "rapid", "test": "TestC11Fmt", "checks": 40000},
            {"kind": "rapid", "test": "TestC11Panic", "checks": 40000},
        ],
        "thorough": [
            {"kind": "enum", "test": "TestEnumC11Runes", "env": {"VERIF_RUNE_STEP": 1}, "timeout": 600},
            {"kind": "rapid", "test": "TestC11Edge", "checks": 200000, "shards": 16},
            {"kind": "rapid", "test": "TestC11Join", "checks": 60000, "shards": 16},
            {"kind": "rapid", "test": "TestC11Fmt", "checks": 250000, "shards": 16},
            {"kind": "rapid", "test": "TestC11Panic", "checks": 200000, "shards": 16},
            {"kind": "fuzz", "test": "FuzzC11Panic", "time": 60},
            {"kind": "fuzz", "test": "FuzzC11Edge", "time": 45},
        ],
    },
    "C14": {
        "quick": [
            {"kind": "enum", "test": "TestEnumC14", "timeout": 900},
            {"kind": "enum", "test": "TestEnumC14Big", "timeout": 900},
            {"kind": "rapid", "test": "TestC14Fwd", "checks": 50000},
        ],
        "thorough": [
            {"kind": "enum", "test": "TestEnumC14", "timeout": 1800},
            {"kind": "enum", "test": "TestEnumC14Big", "timeout": 1800},
            {"kind": "rapid", "test": "TestC14Fwd", "checks": 300000, "shards": 16},
        ],
    },
    "C02": {
        "quick": [
            {"kind": "rapid", "test": "TestC02Pair", "checks": 80000},
        ],
        "thorough": [
            {"kind": "rapid", "test": "TestC02Pair", "checks": 400000, "shards": 16},
            {"kind": "fuzz", "test": "FuzzC02", "time": 60},
        ],
    },
    "C04": {
        "quick": [
            {"kind": "rapid", "test": "TestC04Diff", "checks": 150000},
            {"kind": "rapid", "test": "TestC04Num", "checks": 150000},
        ],
        "thorough": [
            {"kind": "rapid", "test": "TestC04Diff", "checks": 500000, "shards": 16},
            {"kind": "rapid", "test": "TestC04Num", "checks": 500000, "shards": 16},
            {"kind": "fuzz", "test": "FuzzC04", "time": 90},
        ],
    },
    "C01": {
        "quick": [
            {"kind": "rapid", "test": "TestC01Fmt", "checks": 40000},
            {"kind": "rapid", "test": "TestC01Hist", "checks": 40000},
            {"kind": "rapid", "test": "TestC01Join", "checks": 10000},
        ],
        "thorough": [
            {"kind": "rapid", "test": "TestC01Fmt", "checks": 250000, "shards": 16},
            {"kind": "rapid", "test": "TestC01Hist", "checks": 200000, "shards": 16},
            {"kind": "rapid", "test": "TestC01Join", "checks": 50000, "shards": 16},
            {"kind": "fuzz", "test": "FuzzC01", "time": 90},
            {"kind": "fuzz", "test": "FuzzC01Hist", "time": 60},
        ],
    },
    "C03": {
        "quick": [
            {"kind": "rapid", "test": "TestC03Fmt", "checks": 40000},
            {"kind": "rapid", "test": "TestC03Hist", "checks": 40000},
            {"kind": "rapid", "test": "TestC03Join", "checks": 10000},
        ],
        "thorough": [
            {"kind": "rapid", "test": "TestC03Fmt", "checks": 250000, "shards": 16},
            {"kind": "rapid", "test": "TestC03Hist", "checks": 200000, "shards": 16},
            {"kind": "rapid", "test": "TestC03Join", "checks": 50000, "shards": 16},
            {"kind": "fuzz", "test": "FuzzC03", "time": 60},
        ],
    },
    "C09": {
        "quick": [
            {"kind": "enum", "test": "TestEnumC09", "env": {"VERIF_BOUND": 3}, "timeout": 600},
            {"kind": "rapid", "test": "TestC09Hist", "checks": 12000},
        ],
        "thorough": [
            {"kind": "enum", "test": "TestEnumC09", "env": {"VERIF_BOUND": 5}, "timeout": 5400},
            {"kind": "rapid", "test": "TestC09Hist", "checks": 100000, "shards": 16},
            {"kind": "fuzz", "test": "FuzzC09", "time": 60},
        ],
    },
    "C13": {
        "quick": [
            {"kind": "enum", "test": "TestEnumC13", "env": {"VERIF_BOUND": 2}, "timeout": 600},
            {"kind": "rapid", "test": "TestC13Acc", "checks": 40000},
        ],
        "thorough": [
            {"kind": "enum", "test": "TestEnumC13", "env": {"VERIF_BOUND": 3}, "timeout": 5400},
            {"kind": "rapid", "test": "TestC13Acc", "checks": 200000, "shards": 16},
            {"kind": "fuzz", "test": "FuzzC13", "time": 60},
        ],
    },
    "C07": {
        "quick": [
            {"kind": "enum", "test": "TestEnumC07", "env": {"VERIF_BOUND": 7, "VERIF_ALPHA": 8}, "timeout": 600},
            {"kind": "rapid", "test": "TestC07Laws", "checks": 30000},
            {"kind": "enum", "test": "TestEnumFirstUse", "env": {"VERIF_FIRSTUSE_PROP": "C07"}, "timeout": 600},
        ],
        "thorough": [
            {"kind": "enum", "test": "TestEnumC07", "env": {"VERIF_BOUND": 8, "VERIF_ALPHA": 9}, "timeout": 3000},
            {"kind": "rapid", "test": "TestC07Laws", "checks": 300000, "shards": 16},
            {"kind": "fuzz", "test": "FuzzC07Bytes", "time": 60},
            {"kind": "enum", "test": "TestEnumFirstUse", "env": {"VERIF_FIRSTUSE_PROP": "C07"}, "timeout": 600},
        ],
    },
    "C10": {
        "quick": [
            {"kind": "enum", "test": "TestEnumC10", "env": {"VERIF_BOUND": 7, "VERIF_INNER_BOUND": 5, "VERIF_ALPHA": 8}, "timeout": 600},
            {"kind": "rapid", "test": "TestC10Escape", "checks": 20000},
            {"kind": "rapid", "test": "TestC10Split", "checks": 20000},
        ],
        "thorough": [
            {"kind": "enum", "test": "TestEnumC10", "env": {"VERIF_BOUND": 8, "VERIF_INNER_BOUND": 7, "VERIF_ALPHA": 9}, "timeout": 3000},
            {"kind": "rapid", "test": "TestC10Escape", "checks": 200000, "shards": 16},
            {"kind": "rapid", "test": "TestC10Split", "checks": 200000, "shards": 16},
            {"kind": "fuzz", "test": "FuzzC10Bytes", "time": 60},
        ],
    },
}

RULES = {
    "C12": "rapid, histories: 1-12 prior calls over all routes, weighted towards what can leave a pooled printer dirty (caught and propagating method panics, SafeFormat methods panicking mid-output, Safe/Unsafe overrides around user programs, bad verbs, %w use and misuse in HelperForErrorf, nested printers, outputs just below and above the 64 KiB pooling limit, error hook, registered types), with a probe after each call and then a battery of 15 fixed probe calls whose results are compared with references obtained on newly allocated printers (pool drained through the hook; GOMAXPROCS(1), GC off during a case so that the pool is not emptied behind the harness); a second generator compares the probes in a warm process with those printed by a freshly started subprocess. Non-trivial = the history contains an abnormal call and at least one probe ran on a recycled printer (no pool allocation during the probe, by the hook's counter). Schedules: 2-16 goroutines replay generated call lists concurrently (1/4 of the cases on one shared set of operand objects) with generated runtime.Gosched() injection; results are compared with single-threaded references, and the same property runs in a -race build where any race report is a violation; plus a fixed scenario (8 goroutines printing one StringBuilder with an open envelope). Non-trivial there = at least two calls actually overlapped (atomic phase counter). Distinct = distinct specs (64-bit fingerprint). The battery also holds probes that use 2 and 4 nested printers at once (reaching printers deeper in the pool) and print panicking Stringers inside nested printers; a fifth of the history calls is a Safe()/Unsafe()/bare re-entrant program whose nested Print/Printf meets a contained or a propagating panic. First use: each of 28 public entry points is the first library call of a freshly started process (made by one goroutine, and - in a race-detector build - by 8 goroutines at once), followed by all the others; results compared with a warm process. Concurrency cases take their sequential references after the concurrent phase and one in three lets several goroutines print a never-seen struct type with field names as their first call.",
    "C05": "rapid: route (Sprintf, Fprintf, Sprint, Fprint, StringBuilder.Printf, SafePrinter.Printf) x 1-3 directives with flags/width/precision and a verb valid for its operand class (string verbs v s q x X, integer verbs v d b o O x X c q U, float verbs, bool verbs) x operands that are leaves or containers of leaves to depth 2 ([]interface{}, [2]interface{}, struct with interface fields, single-entry map[interface{}]interface{} incl. its key) x configuration (every subset of the registrable pool, registry reset per case through the hook). Leaves: plain and named basic kinds, named kinds with String/Error methods, SafeString/SafeInt/SafeUint/SafeFloat, SafeValue-marked kinds, registrable kinds, Safe(x), Unsafe(x), untyped nil, scripted SafeFormatters (flagless directives). Oracle: fmt renders the same shape with every leaf inside an extent wrapper (sentinel + fmt.FormatString forwarding); from it T (full text) and S (unsafe extents reduced to their line feeds) are read off, and strip(out) == esc(T), delEnv(out) == esc(S). Non-trivial = at least one safe and one unsafe leaf and (nesting or a flag/width/precision/non-v verb). Distinct = distinct specs (64-bit fingerprint). Leaves are also placed in reflect.Value operands (made from the value, or designating an interface-typed slot); the builtin types string and int are registered in one case in eight each. C05Join: JoinTo over []string, []int, []interface{}, named-string, error and registered-type slices and arrays on a StringBuilder and on a SafePrinter (after 0-2 prior writes), under all subsets of registered types incl. builtin string/int, compared with Print of each element (non-trivial = at least 2 elements and a registered type). C05Typed: two leaves (plain, named, registered, SafeValue-marked, wrapper, Stringer/error kinds) in a slice, array, map, struct or pointed-to struct whose slots have the leaves' own types and in the same container with interface-typed slots, under a generated directive without # and all subsets of registered types: both must print alike (non-trivial = a leaf is declared safe).",
    "C06": "rapid: x from the full value universe (1/2 of the cases) or the fmt-compatible one, including scripted Formatters that discover the SafePrinter behind their fmt.State and scripted SafeFormatters, both calling back through Print/Printf/Safe*/Unsafe*/Write with recursive operands, SafeValues, registered types, library-produced RedactableStrings, errors with an error hook installed; a directive without '*'; a wrapper chain W1(W2(W3(x))) of length 1-3; placed at top level, in a []interface{}, in an exported struct field or as a map value. Oracle: N - the chain prints exactly like W1(x); U1 - under an outermost Unsafe nothing of the rendering is outside envelopes (only the container's brackets and line feeds); U2 - at top level, for fmt-compatible x, the stripped text is what fmt prints for x; S1 - under an outermost Safe, for fmt-compatible x without classification of its own, no envelope and exactly fmt's characters (top level and in a slice); H - with a hook installed Unsafe(err) prints as without and the hook is not called. Non-trivial = x is itself classified (SafeValue, Safe-wrapped, registered, redactable, SafeFormatter, hooked error) or its method re-enters the printer. Distinct = distinct specs (64-bit fingerprint). Further placements: the wrapper inside a reflect.Value operand (made from it, or designating an interface-typed slot: Elem of a pointer to an interface, struct field, slice element), which must print like each other and, for pointer- and reflect.Value-free x, like fmt prints x as a slice element. One case in eight is a formatter that discovers the SafePrinter and makes a nested Printf with a missing operand, a bad argument index or an extra operand. A further placement is an unexported struct field; for x without a classification of its own or declared safe itself, the output of Safe(x) in any placement has as many envelopes as the same container around Safe(1).",
    "C17": "rapid: configuration (hook installed with probability 0.9: a scripted function over the SafeWriter-op universe that can also emit the verb and err.Error(); registered safe types) x error values (value/pointer/errors.New/named-kind errors, wrapping, nil-receiver, error+Stringer, error+Formatter, error+SafeFormatter, error+SafeMessager) x positions (top level under every verb and flag incl. invalid and non-ASCII verbs, %T/%p, the %w of HelperForErrorf, []interface{}, []error, map values, exported and unexported struct fields, pointer to struct, arrays, reflect.Value, under Safe(), under Unsafe()) x routes (Sprint, Sprintf, Fprintf, HelperForErrorf). Oracle: output with the hook == output of the same shape with every dispatched error replaced by an error+SafeFormatter stand-in whose SafeFormat runs the hook's script (both shapes share all other objects); the hook is not called in the stand-in run (i.e. never for SafeFormatter/SafeMessager errors, %T/%p, unexported fields, under Unsafe()); the multiset of (error, verb) hook calls equals the stand-in's SafeFormat calls and their number equals the number of dispatched positions; Unsafe(err) prints as without hook and fully enveloped. Non-trivial = hook installed, at least one dispatched error, and not bare top-level %v. Distinct = distinct specs (64-bit fingerprint). A sixth of the hooks panics after its partial output (the stand-in then panics in SafeFormat; the two report names are identified); hooks may print the error's cause through the printer ('Cause' op: the hook is re-entered for it, chains of value-type uncomparable wrapping errors included) and operands of their own that are not errors, including ones whose methods panic. Error kinds also include byte-kinded errors alone and as the elements of a typed slice (a byte string under s/q/x/X: not dispatched there), named slice types whose nil value makes Error panic, and errors that are GoStringers. SafeValue-marked errors are drawn too: the hook call is expected, the value stays as it is in both shapes.",
    "C08": "rapid: histories of 1-6 steps starting from a library-produced redactable r0 (Sprint/Sprintf of generated operands: envelopes, line feeds, escaped markers, empty); each step applies one of 31 re-print / join / container compositions (Sprint, Sprint of ToBytes, Sprintf with literals around any directive except %T/%p incl. flags, width, precision, '*', odd verbs; reflect.ValueOf; Safe(); Join/JoinTo with safe or unsafe delimiters on a builder and on a SafePrinter; StringBuilder.Print/Printf; printing a StringBuilder by value and by pointer; SafePrinter.Print/Printf; []RedactableString, [2]RedactableString, []interface{}, map values, struct fields exported / unexported / interface-typed, pointer to struct, %+v, %#v) and the result becomes the next r. Oracle per step: the result equals the literal concatenation of its pieces (identity for re-printing), and Redact / StripMarkers applied to the result equal the concatenation of their application to the pieces. Non-trivial = the redactable contains an envelope, an escaped marker or a line feed and the step is not bare %v/Sprint. Distinct = distinct specs (64-bit fingerprint). C08Lines: a payload over the byte alphabet with 1-4 line feeds (half of the lines end in a truncated multi-byte sequence) is printed as unsafe or safe text; every line of the output (a redactable of its own by C03) is printed again followed by an unsafe operand, by safe text, or by the other lines (Sprint, Sprintf, StringBuilder, Join with safe and unsafe delimiters), where what follows starts with bytes that could complete a marker: the result must be well-formed and line-safe and nothing of an unsafe operand may be outside envelopes (non-trivial = several lines and marker bytes in the payload).",
    "C15": "rapid: structured formats with 0-4 directives, each %w with probability 1/2 (flags, width, precision, '*'), operands at %w positions drawn from {error value, pointer error, errors.New, named-kind errors, wrapping error, nil-receiver error, error+Stringer, error+SafeFormatter, error+SafeMessager, Safe(err), Unsafe(err), untyped nil, string, int, Stringer, struct, missing}; other operands from the full or the fmt-compatible universe; optional error hook. Oracle: (E) returned error by the statement (sequential model: the first %w with an error operand is captured, any misuse clears it for good); (T1) no %w => text == Sprintf; (T2) text == per-directive Sprintf with the correct %w printed as %v and every other %w as the bad-verb report; (T3) for at most one %w and fmt-compatible operands: stripped text == fmt.Errorf(...).Error() escaped and error == errors.Unwrap. Non-trivial = at least one %w. Distinct = distinct specs (64-bit fingerprint). %w positions also hold uncomparable errors, empty byte slices, the invalid reflect.Value and redactables; very long formats repeat one operand kind; a panicking HelperForErrorf is compared with Sprintf of the same format with %w written as %v.",
    "C16": "rapid: an argument list (full value universe, registered types, optional error hook) with a structured or chaotic format, printed through Sprint/Sprintf (reference), Fprint/Fprintf into a recording writer that succeeds, fails or writes short, HelperForErrorf (formats without %w), and embedded between 0-5 generated prefix and 0-4 suffix writer ops on a StringBuilder, on the SafePrinter of Sprintfn and on the SafePrinter of a SafeFormat method. Oracle: F variant = exactly one Write with the S variant's bytes and (n, err) as returned by the writer; embedded routes equal prefix-alone + S variant + suffix-alone after merging adjacent envelopes. Non-trivial = at least two operands or a non-basic operand, and the prefix leaves an envelope open or unescaped bytes pending in the outer buffer (observed through the hook). Distinct = distinct specs (64-bit fingerprint). The SafeFormat route is also taken under %8v %-6.1v %#v %+v %08.3v '% x' %q when prefix and suffix have no SafeInt/SafeUint/SafeFloat. The F variants are also called with a StringBuilder and a ManualBuffer as destination: one Write of the finished text, which the builder takes as unsafe bytes.",
    "C11": "enumeration: all 2048 surrogates plus negative / out-of-range / boundary runes x every rune-taking method x 5 buffer-state classes (empty, open envelope, after safe text, after pre-redactable text, pending partial UTF-8) x 4 implementations; rapid: (a) histories prefix + one edge call (any int32 rune, any byte 0..255, arbitrary byte strings) + suffix on StringBuilder, ManualBuffer, Sprintfn and SafeFormat printers: no panic, line-safe, text before and after intact; (b) JoinTo with non-slice operands of 25 kinds (int, nil, string, array, map, pointer, chan, func, struct, typed nils, wrappers): no panic, output = printing the value as-is; (c) print cases over all routes / full universe / chaotic formats / configurations: a panic may escape only if a panic is raised while printing a panic payload; (d) a method panicking (String, Error, GoString, SafeMessage, Format, SafeFormat, error hook; after 0-4 ops of partial output; payload string/error/SafeString/int/nested panicker; top level, under Unsafe(), inside a slice) between generated text: the output must equal text-before + partial output + %!verb(PANIC=<method> method: <payload>) + text-after. Non-trivial = an edge value, a non-slice operand, a chaotic format, nil operand or a panicking method is involved. Distinct = distinct specs (64-bit fingerprint). Panic cases also check StringWithoutMarkers against Sprint for SafeFormatter operands.",
    "C14": "enumeration: the complete product 32 flag subsets x 8 widths {absent,1,7,12,1000,*=-7,*=0,*=5} x 7 precisions {absent,'.',0,1,5,*=0,*=3} x 56 verbs (all ASCII letters, e-acute, cross, start marker, invalid byte) x 13 operand kinds (1.4M evaluations), each under fmt's State and under redact's printer; rapid: directives outside the grid (widths 1..300, star values -40..40, precisions 0..40). Non-trivial = any directive other than bare %v. Distinct = distinct (directive, star values, operand kind). A third part (TestEnumC14Big) forwards widths/precisions up to the accepted maximum of 1e6 (literal and '*') and large values congruent to small ones modulo 65536, interleaved with those (the answer must not depend on what was forwarded before). rapid also draws: the probe / forwarder as the second element of a slice after a sibling (0, uint8(0), 7, 2.5, \"ab\", nil, true), '*' width operands of kind uint64/uint/uintptr/int64/uint8 at the edges of their range, operands that are nil pointers to Formatter / Stringer types; and compares the state tuple seen under fmt with the one seen under redact.",
    "C02": "rapid: a shape (route x format x operand tree x registered types x optional error hook) with two instantiations A, B of its unsafe leaves, B derived from A by construction: every non-LF rune of an unsafe string is replaced by a freshly drawn one (markers, multi-byte runes included), run lengths may change when the consuming directive has no width/precision; byte slices and StringBuilder payloads keep their encoded length; bools, floats, complex always redrawn; integers redrawn in structured formats (zero-ness kept: it is 'emptiness' under a zero precision; shared under %c, which can print a line feed) and shared in chaotic formats (any may feed a '*'); map keys keep their relative order; public parts (literals, safe types, Safe()-wrapped, registered, star operands) are shared and free of pointers. Oracle: Redact(A) == Redact(B) byte for byte, both panic or neither, and a private-use rune tagged onto A's unsafe leaves never survives redaction. Non-trivial = the two unredacted outputs differ and the case is not bare top-level %v of basic values. Distinct = distinct specs (64-bit fingerprint). The class histogram counts (operand kind x verb) pairs.",
    "C04": "rapid: route (Sprint, Sprintf, Fprint, Fprintf) x format (70% structured, 30% chaotic; every verb incl. invalid and non-ASCII ones, flags, width, precision, '*' with negative/zero/too large/non-int operands, argument indexes in chaotic formats, missing and extra operands) x operands from the fmt-compatible universe (basic and named kinds, containers, pointers, nil and typed nil, reflect.Value, Stringer/error/Formatter/GoStringer implementations incl. panicking, nil-receiver and scripted ones, SafeValue-marked and registered types), valid UTF-8 text with markers; excluded as the property says: %w, '0' with '-'. Oracle: strip(redact output) == fmt output with markers replaced by '?'; panics iff fmt panics. Non-trivial = anything beyond bare %v of a basic value (flag, width, precision, other verb, container, method, or an fmt diagnostic in the output). Distinct = distinct specs (64-bit fingerprint). A second generator (TestC04Num) concentrates on numeric leaves: every numeric verb x flag subsets x widths/precisions from {0..8, 20, 59..65, 100, 127..129, 300, 1000} x integers at the edges of the rune and integer ranges (surrogates, U+FFFF/U+10000, U+1F600, U+10FFFF+1, min/max int64) and floats incl. 1e300, 5e-324, NaN, Inf. Formats now and then carry explicit argument indexes at all three places ([n]*, .[n]*, [n]verb) and, rarely, widths at the parser's limits (999999..1000009).",
    "C01": "rapid: (a) print cases = route (Sprint, Sprintf, Fprint, Fprintf, HelperForErrorf, StringBuilder.Print/Printf incl. RedactableBytes, Sprintfn Print/Printf) x format (65% structured directives with flags/width/precision/star/odd and non-ASCII verbs, 35% chaotic byte soup) x operands from the full value universe (plain kinds, containers, pointers, Stringer/error/Formatter/GoStringer/SafeFormatter/SafeMessager programs incl. panicking ones and formatters that discover the SafePrinter, Safe/Unsafe wrappers, library-produced RedactableString/Bytes, StringBuilders) x configuration (registered safe types, scripted error hook), payloads over the text or the byte alphabet (markers, single marker bytes, other lead bytes, FF); (b) writer-op histories of up to 12 ops in 12 contexts (StringBuilder, RedactableBytes, ManualBuffer with SetMode/raw fragments, Sprintfn, SafeFormat under a random directive / under Unsafe / under Safe / in a slice / in a struct, printing a StringBuilder, EscapeBytes); (c) Join/JoinTo over library-produced redactables. Oracle: well-formedness predicate on every output + escape invariance (replacing every marker in string payloads and literals by '?' must not change the output; only for %v/%s/%q directives and address-free outputs). Non-trivial = some payload, literal, panic message, map key or verb contains a marker or partial-marker byte (and the call did not end in a propagating panic). Distinct = distinct specs by 64-bit fingerprint.",
    "C03": "rapid: the same three generators as C01 (print cases over all routes / value universe / configurations; writer histories in 12 contexts; Join/JoinTo), judged by line-safety (well-formed and no line feed inside an envelope), well-formedness of every line of strings.Split(out, LF), and equality of line-wise and whole-string Redact / StripMarkers (string and bytes variants). The alphabets contain LF and LF LF tokens so that about 40% of unsafe payloads carry line feeds at their start, end or next to markers. Non-trivial = an unsafe-side payload contains a line feed and the output contains one. Distinct = distinct specs by 64-bit fingerprint.",
    "C09": "enumeration: breadth-first over all sequences of up to 3 (quick) / 5 (thorough) ops drawn from 50 op instances (17 SafeWriter/io.Writer methods x payloads from {a, space, LF, start marker, e-acute, 'a LF start-marker', empty}), with exact de-duplication of the buffer's hidden state through the verif hook; every transition is judged against the segment model, every retained path is also run on ManualBuffer, Sprintfn and a SafeFormat method. rapid: histories of up to 40 ops over the text or byte alphabet, with SetMode/raw-fragment writes for the buffer routes and Print/Printf ops. Non-trivial = the history has ops of at least two classes (safe/unsafe/pre-redactable) or a payload containing a marker byte or a line feed. Distinct = distinct reached buffer states (enumeration) / distinct histories (rapid), by 64-bit fingerprint. Payloads are now and then long (25-140 tokens), run-structured (plain runs of 0-160 bytes each followed by a special token, so that special bytes fall at every offset modulo any window) or huge (filler up to one of 16 size thresholds from 60 B to 70 KB with tokens at the threshold), and one history in 25 contains a bulk write at such a threshold; SafeFormat histories are also run under %+v and %#v. Also: io.Copy and fmt.Fprint onto the destination (unsafe bytes), an operand ledger (every []byte lent to the library is compared after the call, overwritten, and compared again at the end; RedactableBytes operands of Print are compared at the end), results of RedactableString() read after every op and judged again after the history, StringWithoutMarkers, and SafeFormat histories under %8v %-6.1v %08.3v '% x' %q when the script has no SafeInt/SafeUint/SafeFloat.",
    "C13": "enumeration: at every buffer state reachable by up to 2 (quick) / 3 (thorough) ops over the C09 op instances, each accessor (Len, Cap, String, RedactableString, RedactableBytes, GetMode), Reset, TakeRedactableString and TakeRedactableBytes is applied with and without spare capacity and followed by each of 4 suffix ops; rapid: histories of up to 25+10 ops with accessor calls inserted at random positions, an optional Reset/Take in the middle, an initial Grow of 0/1/3/7/64/100, on StringBuilder or ManualBuffer. Non-trivial = some accessor/Reset/Take ran while an envelope was open or unescaped bytes were pending (observed through the hook). Distinct = distinct specs by 64-bit fingerprint. One history in 25 contains a bulk write at a size threshold (60 B .. 70 KB), so that accessors, Reset and Take also run on big buffers. Strings returned by accessors and Take, and the bytes returned by TakeRedactableBytes, are kept and compared with a private copy at the end; the operand ledger of C09 is active.",
    "C07": "enumeration: every string of up to 7 (quick) / 8 (thorough) tokens over {start marker, end marker, cross, LF, 'a', E2, 80, B9[, BA]} through Redact/StripMarkers (string and bytes variants, ToBytes/ToString), with the concatenation law at every token boundary; rapid: strings of up to 30 tokens over the byte alphabet with toggled envelopes (3/4 biased to well-formed) and pairs for the concatenation law. Non-trivial = the string contains at least one marker. Distinct = distinct input strings (64-bit FNV fingerprint). One case in about a hundred embeds the string between 60 B - 70 KB of well-formed filler lines (size-dependent paths), and every case first overwrites the slices returned by StartMarker/EndMarker/RedactedMarker (a caller owns them). First use: each of the 9 marker-transformation entry points is the first library call of a freshly started process, followed by all other entry points; results compared with a warm process.",
    "C10": "enumeration: every byte string up to the length bound over {E2,80,B9,BA,'a',LF,'?',C3[,space]} through EscapeMarkers/EscapeBytes, and through the internal routine for every start offset and both line-break settings; rapid: strings of up to 40 tokens over the byte alphabet (markers, marker bytes, other lead bytes, FF, text) and random splits of one payload into Write/WriteString calls on a ManualBuffer. Non-trivial = the input contains a full marker or an individual marker byte (for splits: and at least one cut). Distinct = distinct (check, input, offset, flag) by 64-bit FNV fingerprint (set capped at 4M per process). One split case in 15 is 'small head + one chunk at a size threshold (60 B .. 70 KB) + small tail' with cuts around the chunk; payload alphabets include marker look-alikes (runes sharing two trailing bytes with a marker).",
}

ASSUMPTIONS = {
    "*": [
        "oracle code in /verif/harness (byte-level predicates, reference models) is correct; it is exercised against the pinned tree",
        "Go toolchain packages used by the oracles (unicode/utf8, bytes, fmt of go1.23.5) are correct",
        "generated search establishes absence of counter-examples only within the explored cases / stated enumeration bounds",
    ],
    "C07": ["well-formedness is judged at byte level (a marker is the 3-byte sequence E2 80 B9/BA wherever it occurs)"],
    "C10": ["reference for escaping: left-to-right replacement of each 3-byte marker by '?'; delimiter elision and empty envelopes are immaterial (compared after normalisation)"],
}

HOOK_COMMITS = ["cf350cc"]

NOT_APPLICABLE = {}

CLAIMS = {
    "C12": {
        "text": "Histories: generated call histories followed by probe calls, compared with fresh-printer references; the pool hook proves that the probes really ran on recycled printers and yields the references a fresh process would give (cross-checked against a real freshly started subprocess). Schedules: sampled concurrent replays compared with sequential references, and the same replays under the race detector (happens-before analysis flags unsynchronised sharing on any executed path, regardless of timing). Exploration; found and repaired F6 (read-only accessors wrote into a shared buffer) and F12 (Formatters saw the width and precision numbers of earlier directives and, through the pool, of earlier calls).",
        "design_ref": "DESIGN.md §4.12",
        "note": "The schedule half samples interleavings: Go gives the harness no control over the scheduler and the library has no yield points, so schedules are not enumerated (weaker than the history half, as DESIGN.md §7 says). A race report is schedule dependent and is reported with its stack traces as the replay file. Trusted: the pool hook (counter in ppFree.New).",
        "technique": "rapid stateful/history-based property testing with hook-verified pool reuse + concurrent differential testing under the Go race detector",
    },
    "C05": {
        "text": "Differential against fmt with leaf extents: the expected placement of every character comes from fmt's own rendering of the same format and shape, in which each leaf is bracketed by sentinels through a forwarding Formatter; two equalities (stripped text, text outside envelopes) then pin that exactly the unsafe leaves' complete renderings (padding, sign, quotes, prefixes) are enveloped and everything else is not. All subsets of registered types are visited (registry reset per case); leaves are also placed in reflect.Value operands made from the value or designating an interface-typed slot. Exploration; found and repaired F10 and F11 (registered types with methods in interface slots of containers / of reflect.Value operands) and, with C06, F8.",
        "design_ref": "DESIGN.md §4.5",
        "note": "Leaves must be atomic under the directive that reaches them: named basic kinds for method-bearing nested leaves; complex numbers and []byte under %v/%d are containers of leaves with structural punctuation and are not used as leaves; %T/%p are outside (type and address are public); SafeFormatter leaves only under flagless directives (their SafeInt/SafeFloat inherit the active flags, which the property does not speak about). Trusted: fmt.FormatString round-trips the directive (no '*').",
        "technique": "rapid property-based differential testing against fmt with sentinel-delimited leaf extents, over all registry configurations",
    },
    "C06": {
        "text": "Generated wrapper chains around generated values and user programs (including formatters that call back into the printer), judged by validity predicates (all inside / none inside envelopes), a differential against fmt for the characters, and a metamorphic relation (the chain equals its outermost wrapper). Exploration; found and repaired F3 (nested printers dropped the override) and F8 (wrappers below the top-level operand).",
        "design_ref": "DESIGN.md §4.6",
        "note": "The character claims (U2, S1) are restricted to fmt-compatible x and to placements whose surrounding brackets are known (top level, slice); %T/%p/%w are outside them (types and addresses are public; %w is a bad verb outside HelperForErrorf).",
        "technique": "rapid property-based testing: validity predicates + differential against fmt + metamorphic wrapper-chain relation, over scripted re-entrant user programs",
    },
    "C17": {
        "text": "Differential testing against a stand-in: an error that is itself a SafeFormatter running the hook's script must be indistinguishable from a hooked error, in every position, under every verb, in whole-process runs per configuration; a call log pins 'exactly once, with the right error and verb' and 'never' for the excluded classes. Exploration; 100k cases per quick run.",
        "design_ref": "DESIGN.md §4.17",
        "note": "The scripted hook is nil-receiver safe (a hook that panics is covered by C11's composition model). SafeValue-marked errors are outside this check: the hook runs under their safe override, which a stand-in cannot reproduce. Sprint is used with a single operand (its separator depends on string-kindness, which the stand-in cannot preserve).",
        "technique": "rapid property-based differential testing against a reference construction (stand-in SafeFormatter) with call-log invariants, per configuration",
    },
    "C08": {
        "text": "Inductive closure under composition is checked on generated histories of print-then-reprint / join / embed steps over library-produced redactables: every step must be the literal concatenation of its pieces (identity for plain re-printing under any directive), and Redact/StripMarkers must distribute over it. Exploration; 40k histories per quick run, 2.4M per thorough run. Found and repaired F16 (a line of an earlier output, printed again, ran into what follows it).",
        "design_ref": "DESIGN.md §4.8",
        "note": "Container expectations for %v/%+v come from a hand model of fmt's brackets, spaces and field names; for %#v only containment and the distribution laws are claimed. %T/%p are excluded as the property says; %w is excluded for StringBuilder operands (a builder is not an error).",
        "technique": "rapid property-based testing over generated composition histories; round-trip identity and concatenation/homomorphism laws",
    },
    "C15": {
        "text": "Generated formats with several %w and every operand class at the %w positions, judged by an executable reading of the statement (sequential capture model), by composition over Sprintf and by a differential against fmt.Errorf + errors.Unwrap. Exploration; found and repaired F7 (misuse through operands that bypass method dispatch). Found and repaired F7 and F17 (%w misuse that bypasses method dispatch).",
        "design_ref": "DESIGN.md §4.15",
        "note": "'#' and '+' on a %w directive are excluded from the 'renders like %v' clause (fmt itself rewrites these flags only for a literal %v); RedactableString operands at %w positions are outside the domain (C08 says they print unchanged under any verb).",
        "technique": "rapid property-based testing: statement model + composition over Sprintf + differential against fmt.Errorf",
    },
    "C16": {
        "text": "Cross-route differential on generated argument lists: the S variant is the reference; the F variant must deliver the same bytes in one Write and report the writer's (n, err) for succeeding, failing and short-writing writers; the builder and nested-printer routes are embedded between generated writer ops so that the outer buffer is in every state (open envelope, pending bytes, raw tail) and must agree up to merging of adjacent envelopes. Exploration.",
        "design_ref": "DESIGN.md §4.16",
        "note": "Equality for the embedded routes is modulo merging of adjacent envelopes and empty envelopes, as the property states.",
        "technique": "rapid property-based cross-implementation differential testing with a fault-injecting io.Writer",
    },
    "C11": {
        "text": "Every parameter of the writing API is driven over its whole type (all surrogates exhaustively, any int32 rune, any byte, arbitrary byte strings) in every buffer state and implementation; JoinTo over non-slice kinds; the full print universe with panicking user programs. Oracles: absence of panic (except the fmt-conformant propagation of a panic raised while printing a panic payload), line-safety, and a composition model that pins the exact text around a contained panic. Exploration; found and repaired F1 (invalid runes), F2 (JoinTo), F9 (nested printer).",
        "design_ref": "DESIGN.md §4.11",
        "note": "ManualBuffer.Grow(<0) and memory exhaustion are outside the claim (documented panics). Writing arbitrary bytes in ManualBuffer's raw mode is a caller obligation, not an accepted input. Which replacement character an invalid rune renders as is not prescribed.",
        "technique": "rapid property-based testing + exhaustive enumeration of the rune edge set; robustness oracle plus composition model around %!verb(PANIC=...)",
    },
    "C14": {
        "text": "The property's own finite quantifier is enumerated completely (1.4M directive x operand combinations, 13 s): a probe Formatter records the state it is called with, calls MakeFormat and prints a second probe with the returned format; the two recorded (flags, width, precision, verb) tuples must be equal and justV must be reported exactly for bare %v; Safe(x), Unsafe(x) and a forwarding formatter must print exactly like x under fmt, and the forwarding formatter like the direct call under redact. Exhaustive over the stated product (strictly stronger than sampling), plus rapid sampling outside the grid.",
        "design_ref": "DESIGN.md §4.14",
        "note": "Tuples are compared with the numeric width/precision masked by their ok flag; a width that is present and zero (only reachable through '*') cannot be written in a format string and is treated as absent. Verbs T, p, w are never dispatched to formatters (checked: the probe is not called).",
        "technique": "exhaustive enumeration of the directive product with a round-trip oracle and a differential oracle (wrapper vs. direct call)",
    },
    "C02": {
        "text": "Two-run (hyper-property) check: for generated shapes, two instantiations of the unsafe leaves must give byte-identical redacted outputs. This is the direct executable form of non-interference and is sensitive to every (kind, verb) classification site of the forked fmt (a missing unsafe switch shows as soon as the two instantiations differ in that leaf). Exploration; 100k pairs per quick run, 6.4M per thorough run. Found and repaired F15 (a SafeMessager printed with a bad verb showed its fields as safe).",
        "design_ref": "DESIGN.md §4.2",
        "note": "Trusted: the derivation of instantiation B keeps exactly what the property calls shape (types, emptiness incl. integer zero-ness, line-break positions, element counts of byte slices, relative order of map keys). Values declared safe are shared and kept free of pointers (addresses of distinct objects differ).",
        "technique": "rapid property-based testing of a two-run relation (non-interference) with constructive generation of paired inputs",
    },
    "C04": {
        "text": "Differential testing against the toolchain's own fmt on generated formats and fmt-compatible operand trees (including user methods that panic or use their fmt.State): stripped redact output must equal fmt's output with markers escaped, and panics must coincide. Exploration; 300k cases per quick run, 16M per thorough run. Found and repaired F13 (map keys starting with a NaN printed in random order) and, with C12, F12.",
        "design_ref": "DESIGN.md §4.4",
        "note": "Oracle = fmt of go1.23.5. Known drift between that fmt and the forked (older) one is excluded: %w, '0' with '-', and width/precision after a caught method panic inside the same operand (newer fmt zeroes the numbers in clearflags).",
        "technique": "rapid property-based differential testing against the standard library fmt",
    },
    "C01": {
        "text": "Generated search over formats x operand trees x user programs x configurations and over writer histories in every context, with a validity predicate (markers strictly alternate) on every produced string plus a metamorphic relation (a marker inside data must behave exactly like a '?') that exposes forged-but-balanced envelopes. Exploration: 90k cases per quick run, 11M per thorough run; found F9 (ill-formed output after a panic propagating through a nested printer), now repaired.",
        "design_ref": "DESIGN.md §4.1",
        "note": "Trusted: WF predicate (harness/oracle.go). Calls that end in a propagating (nested) panic return nothing and are counted trivial; whether the panic is legitimate is C11's business. Escape invariance is restricted to %v/%s/%q without '+'/'#' and to outputs that do not print addresses or reflect script internals.",
        "technique": "rapid property-based testing (structured + chaotic format generators, scripted user programs) with a validity predicate and a metamorphic escape-invariance relation",
    },
    "C03": {
        "text": "Same generated universe as C01, judged by the line-safety predicate and by the property's own observation: every line of the split output is well-formed and line-wise Redact/StripMarkers equals the whole-string result. Exploration, weighted towards line feeds at payload boundaries, next to markers, padding, mode switches and partial UTF-8.",
        "design_ref": "DESIGN.md §4.3",
        "note": "Trusted: LS/WF predicates (harness/oracle.go); Redact/StripMarkers themselves are the subject of C07.",
        "technique": "rapid property-based testing with a validity predicate (line-safety) and a split/join metamorphic law",
    },
    "C09": {
        "text": "Every SafeWriter history up to the bound is explored breadth-first with exact state de-duplication (the buffer's hidden state is read through the verif hook, so a pruned path provably has the same future), and each transition is compared with a two-line segment model (stripped text = payloads in call order with markers replaced by '?'; text outside envelopes = safe payloads + line feeds of unsafe ones) plus the line-safety predicate; the four implementations (StringBuilder, ManualBuffer, Sprintfn printer, SafeFormat printer) must agree up to merging of envelopes. Long histories with hostile payloads are sampled with rapid. Exploration; exhaustive up to the stated history length.",
        "design_ref": "DESIGN.md §4.9",
        "note": "Trusted: the segment model and predicates in harness/writer.go, harness/oracle.go. The two equalities are stated for valid UTF-8 payloads, valid runes and ASCII single bytes (as the property's quantifier says); line-safety is checked for all payloads. Print/Printf segments contribute the library's own Sprint output (their correctness is C05/C16).",
        "technique": "model-based (stateful) property testing: bounded exhaustive BFS with state de-duplication + rapid-generated histories against a reference model, cross-implementation differential",
    },
    "C13": {
        "text": "Metamorphic check over generated call histories: the same history with and without accessor calls must give the same final string, each accessor must leave the hidden state (hook) untouched, Len must equal the length of RedactableString at every step, after Reset/Take the object must be indistinguishable (outputs and hidden state) from a new one under a generated suffix, and every string or byte slice obtained earlier must be byte-identical at the end. Enumerated at every reachable short-history state, sampled for long histories. Exploration; found and repaired F14 (RedactableBytes() returned the live array).",
        "design_ref": "DESIGN.md §4.13",
        "note": "Trusted: the verif hook (VerifState/VerifClone/VerifRawBytes) reports the real fields. RedactableBytes() returns a slice aliasing the live buffer; the property speaks of strings only, so byte slices obtained earlier are not tracked.",
        "technique": "metamorphic + model-based property testing over generated histories (rapid) and bounded exhaustive state enumeration",
    },
    "C07": {
        "text": "All strings of up to 7/8 tokens over the alphabet the two operations can distinguish (both markers, the cross, LF, an ordinary byte and three/four partial-marker bytes) are enumerated completely and each is judged by the algebraic laws of the statement (equality with a byte-level reference on well-formed inputs, idempotence, no marker after StripMarkers, agreement of string/bytes variants, concatenation homomorphism); longer strings are sampled with rapid. Exploration, exhaustive up to the token bound: the regular expressions have no memory beyond one envelope, so short strings cover every adjacency (empty, adjacent, first, last, nested, unbalanced envelopes).",
        "design_ref": "DESIGN.md §4.7",
        "note": "Trusted: the 15-line byte-level reference (refRedact/strip/WF in harness/oracle.go). On inputs where deleting exactly the delimiters would itself splice a marker out of partial bytes (invalid UTF-8 only) exactness and 'no marker left' cannot both hold; there only the latter is required.",
        "technique": "bounded exhaustive enumeration + rapid property-based testing of algebraic laws against a reference model",
    },
    "C10": {
        "text": "Exhaustive enumeration of all byte strings up to length 7 (quick) / 8 (thorough) over an alphabet made of each individual marker byte, another lead byte, line feed, '?' and an ordinary byte, through EscapeMarkers, EscapeBytes and (hook) the internal escape routine for every start offset and both line-break settings, compared with a 15-line reference; plus rapid-generated long strings and random Write/WriteString splits. Exploration, complete up to the bound: escaping bugs are local (3-byte window, buffer end, prefix boundary), so a bound of 7-8 bytes covers every relative position of two markers and the buffer edges.",
        "design_ref": "DESIGN.md §4.10",
        "note": "Trusted: the reference escaper and the WF/LS predicates in harness/oracle.go; Go's bytes/utf8. Not a proof beyond the length bound.",
        "technique": "bounded exhaustive enumeration + rapid property-based testing against a reference implementation (idempotence, split-invariance metamorphic relation)",
    },
}

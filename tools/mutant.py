#!/usr/bin/env python3
"""Apply a seeded change to /repo, run the existing suite and the checks, undo it.

  tools/mutant.py <patch.diff> [--props C01,C05 | --all] [--tier quick] [--demo demo_test.go] [--json out.json]

Never leaves /repo modified (git checkout -- . and removal of the demo file in a finally block).
"""
import json, os, subprocess, sys, time, shutil

VERIF = os.path.dirname(os.path.dirname(os.path.abspath(__file__)))
REPO = "/repo"
ENV = dict(os.environ, GOFLAGS="-mod=mod", GOPROXY="off", GOSUMDB="off", GOTOOLCHAIN="local")
ALL = ["C%02d" % i for i in range(1, 18)]


def sh(cmd, cwd=None, timeout=3600):
    p = subprocess.run(cmd, cwd=cwd, env=ENV, stdout=subprocess.PIPE, stderr=subprocess.STDOUT, text=True, timeout=timeout)
    return p.returncode, p.stdout


def main():
    a = sys.argv[1:]
    patch = os.path.abspath(a[0])
    props, tier, demo, out = None, "quick", None, None
    i = 1
    while i < len(a):
        if a[i] == "--props":
            props = a[i + 1].split(","); i += 1
        elif a[i] == "--all":
            props = ALL
        elif a[i] == "--tier":
            tier = a[i + 1]; i += 1
        elif a[i] == "--demo":
            demo = os.path.abspath(a[i + 1]); i += 1
        elif a[i] == "--json":
            out = a[i + 1]; i += 1
        i += 1
    props = props or ALL
    rc, st = sh(["git", "status", "--short"], REPO)
    if st.strip():
        print("REFUSING: /repo is not clean:\n" + st); return 2
    res = {"patch": patch, "tier": tier, "checks": {}}
    demo_dst = None
    try:
        if demo:
            demo_dst = os.path.join(REPO, "zz_seeded_demo_test.go")
            shutil.copyfile(demo, demo_dst)
            rc, o = sh(["go", "test", "-vet=off", "-count=1", "-run", "Test", "."], REPO)
            res["demo_passes_without_change"] = rc == 0
            if rc != 0:
                print("demo FAILS on the unchanged tree:\n" + o[-1500:])
        rc, o = sh(["git", "apply", patch], REPO)
        if rc != 0:
            print("patch does not apply:\n" + o); return 2
        rc, o = sh(["go", "build", "./..."], REPO)
        res["builds"] = rc == 0
        if demo:
            rc, o = sh(["go", "test", "-vet=off", "-count=1", "-run", "Test", "."], REPO)
            res["demo_fails_with_change"] = rc != 0
            os.remove(demo_dst); demo_dst = None
        rc, o = sh(["go", "test", "-vet=off", "-count=1", "./..."], REPO)
        res["suite_passes"] = rc == 0
        if rc != 0:
            print("existing suite FAILS with the change:\n" + o[-1500:])
        rc, o = sh(["go", "test", "-tags", "verif", "-vet=off", "-count=1", "./..."], REPO)
        res["suite_passes_with_tag"] = rc == 0
        for p in props:
            t0 = time.time()
            rc, o = sh([os.path.join(VERIF, "check"), p, "--tier", tier], VERIF)
            viol = [l for l in o.splitlines() if l.startswith("VIOLATION")]
            res["checks"][p] = {"rc": rc, "violation": bool(viol), "wall_s": round(time.time() - t0, 1),
                                "detail": "\n".join(o.splitlines()[-6:])[-1200:] if rc != 0 else ""}
            print("%s rc=%d %s (%.0fs)" % (p, rc, "VIOLATION" if viol else "", time.time() - t0), flush=True)
    finally:
        if demo_dst and os.path.exists(demo_dst):
            os.remove(demo_dst)
        sh(["git", "checkout", "--", "."], REPO)
        # evidence files were rewritten by runs against a modified tree: restore the committed ones
        sh(["git", "checkout", "--", "evidence"], VERIF)
        shutil.rmtree(os.path.join(VERIF, "replays"), ignore_errors=True)
    caught = [p for p, r in res["checks"].items() if r["violation"]]
    res["caught_by"] = caught
    print("CAUGHT BY:", caught)
    if out:
        json.dump(res, open(out, "w"), indent=1)
    return 0


if __name__ == "__main__":
    sys.exit(main())

#!/usr/bin/env python3
"""Evaluate seeded changes in parallel on scratch worktrees (never touches /repo's working tree).

  tools/mutmatrix.py <dir-with-C??/{a,b}.diff> [--props all|own|C01,C02] [--jobs 6] [--only C05a,C07b] [--tier quick]

For each patch: git worktree of /repo HEAD under /tmp/mut/eval/, apply, run the existing suite
(must pass), run the demo (must fail with / pass without), run the checks with VERIF_REPO pointing
at the worktree; results in <dir>/C??/result_<v>.json and a summary table on stdout.
"""
import json, os, subprocess, sys, shutil, time
from concurrent.futures import ThreadPoolExecutor

VERIF = os.path.dirname(os.path.dirname(os.path.abspath(__file__)))
ENV = dict(os.environ, GOFLAGS="-mod=mod", GOPROXY="off", GOSUMDB="off", GOTOOLCHAIN="local")
ALL = ["C%02d" % i for i in range(1, 18)]


def sh(cmd, cwd=None, env=None, timeout=7200):
    p = subprocess.run(cmd, cwd=cwd, env=env or ENV, stdout=subprocess.PIPE, stderr=subprocess.STDOUT, text=True, timeout=timeout)
    return p.returncode, p.stdout


def evaluate(root, prop, v, props, tier):
    name = prop + v
    d = os.path.join(root, prop)
    patch = os.path.join(d, v + ".diff")
    demo = os.path.join(d, "demo_%s_test.go" % v)
    wt = "/tmp/mut/eval/" + name
    out = "/tmp/mut/evalout/" + name
    res = {"mutant": name, "patch": patch, "checks": {}}
    shutil.rmtree(out, ignore_errors=True)
    os.makedirs(out, exist_ok=True)
    sh(["git", "-C", "/repo", "worktree", "remove", "--force", wt])
    rc, o = sh(["git", "-C", "/repo", "worktree", "add", "-q", "--detach", wt, "HEAD"])
    if rc != 0:
        res["error"] = "worktree: " + o
        return res
    try:
        demo_dst = os.path.join(wt, "zz_seeded_demo_test.go")
        if os.path.exists(demo):
            shutil.copyfile(demo, demo_dst)
            rc, o = sh(["go", "test", "-vet=off", "-count=1", "."], wt)
            res["demo_passes_without_change"] = rc == 0
            os.remove(demo_dst)
        rc, o = sh(["git", "apply", patch], wt)
        if rc != 0:
            res["error"] = "apply: " + o
            return res
        rc, o = sh(["go", "build", "./..."], wt)
        res["builds"] = rc == 0
        rc, o = sh(["go", "test", "-vet=off", "-count=1", "./..."], wt)
        res["suite_passes"] = rc == 0
        if rc != 0:
            res["suite_output"] = o[-1500:]
        if os.path.exists(demo):
            shutil.copyfile(demo, demo_dst)
            rc, o = sh(["go", "test", "-vet=off", "-count=1", "."], wt)
            res["demo_fails_with_change"] = rc != 0
            os.remove(demo_dst)
        env = dict(ENV, VERIF_REPO=wt, VERIF_OUT_DIR=out)
        for p in props:
            t0 = time.time()
            rc, o = sh([os.path.join(VERIF, "check"), p, "--tier", tier], VERIF, env)
            viol = [l for l in o.splitlines() if l.startswith("VIOLATION")]
            res["checks"][p] = {"rc": rc, "violation": bool(viol), "wall_s": round(time.time() - t0, 1)}
            if rc != 0:
                res["checks"][p]["detail"] = "\n".join(o.splitlines()[-8:])[-1500:]
        res["caught_by"] = [p for p, r in res["checks"].items() if r["violation"]]
        res["inconclusive"] = [p for p, r in res["checks"].items() if r["rc"] == 2]
    finally:
        sh(["git", "-C", "/repo", "worktree", "remove", "--force", wt])
        shutil.rmtree(os.path.join(out, ".work"), ignore_errors=True)
    rp = os.path.join(d, "result_%s.json" % v)
    if os.path.exists(rp) and os.environ.get("MUT_MERGE"):
        # merge into an earlier result: newer verdicts replace older ones per property
        old = json.load(open(rp))
        checks = old.get("checks", {})
        checks.update(res["checks"])
        res["checks"] = checks
        res["caught_by"] = sorted(p for p, r in checks.items() if r["violation"])
        res["inconclusive"] = sorted(p for p, r in checks.items() if r["rc"] == 2)
    json.dump(res, open(rp, "w"), indent=1)
    return res


def main():
    a = sys.argv[1:]
    root = os.path.abspath(a[0])
    props_arg, jobs, only, tier = "own", 6, None, "quick"
    i = 1
    while i < len(a):
        if a[i] == "--props":
            props_arg = a[i + 1]; i += 1
        elif a[i] == "--jobs":
            jobs = int(a[i + 1]); i += 1
        elif a[i] == "--only":
            only = set(a[i + 1].split(",")); i += 1
        elif a[i] == "--tier":
            tier = a[i + 1]; i += 1
        i += 1
    work = []
    for prop in sorted(os.listdir(root)):
        for v in ("a", "b", "c", "d"):
            if os.path.exists(os.path.join(root, prop, v + ".diff")):
                if only and (prop + v) not in only:
                    continue
                own = prop
                if own not in ALL:
                    # directories not named after a property: the target is in the meta file
                    try:
                        own = json.load(open(os.path.join(root, prop, "meta_%s.json" % v))).get("property", "")
                    except Exception:
                        own = ""
                own_list = [own] if own in ALL else ALL
                props = ALL if props_arg == "all" else own_list if props_arg == "own" else props_arg.split(",")
                work.append((root, prop, v, props, tier))
    os.makedirs("/tmp/mut/eval", exist_ok=True)
    with ThreadPoolExecutor(max_workers=jobs) as ex:
        results = list(ex.map(lambda w: evaluate(*w), work))
    for r in results:
        print("%-5s suite=%s demo(with/without)=%s/%s caught_by=%s inconclusive=%s %s" % (
            r["mutant"], r.get("suite_passes"), r.get("demo_fails_with_change"), r.get("demo_passes_without_change"),
            r.get("caught_by"), r.get("inconclusive"), r.get("error", "")))


if __name__ == "__main__":
    main()

#!/usr/bin/env python3
"""Re-verify every kept seeded change against the current /repo HEAD: apply, build, suite, demo with/without, own-property quick check."""
import json,os,subprocess,sys,shutil
from concurrent.futures import ThreadPoolExecutor
ENV=dict(os.environ,GOFLAGS="-mod=mod",GOPROXY="off",GOSUMDB="off",GOTOOLCHAIN="local")
def sh(cmd,cwd=None,env=None,timeout=3600):
    p=subprocess.run(cmd,cwd=cwd,env=env or ENV,stdout=subprocess.PIPE,stderr=subprocess.STDOUT,text=True,timeout=timeout)
    return p.returncode,p.stdout
def one(sid):
    d=f'/verif/seeded/{sid}'
    m=json.load(open(d+'/meta.json'))
    prop=m['property_targeted']
    wt=f'/tmp/mut/rv/{sid}'; out=f'/tmp/mut/rvout/{sid}'
    shutil.rmtree(out,ignore_errors=True); os.makedirs(out,exist_ok=True)
    sh(['git','-C','/repo','worktree','remove','--force',wt])
    sh(['git','-C','/repo','worktree','add','-q','--detach',wt,'HEAD'])
    r={'id':sid,'prop':prop}
    try:
        shutil.copyfile(d+'/demo_test.go',wt+'/zz_demo_test.go')
        rc,_=sh(['go','test','-vet=off','-count=1','.'],wt); r['demo_clean_passes']=rc==0
        os.remove(wt+'/zz_demo_test.go')
        rc,o=sh(['git','apply',d+'/patch.diff'],wt); r['applies']=rc==0
        rc,_=sh(['go','build','./...'],wt); r['builds']=rc==0
        rc,_=sh(['go','test','-vet=off','-count=1','./...'],wt); r['suite']=rc==0
        shutil.copyfile(d+'/demo_test.go',wt+'/zz_demo_test.go')
        rc,_=sh(['go','test','-vet=off','-count=1','.'],wt); r['demo_fails']=rc!=0
        os.remove(wt+'/zz_demo_test.go')
        rc,o=sh(['/verif/check',prop,'--tier','quick'],'/verif',dict(ENV,VERIF_REPO=wt,VERIF_OUT_DIR=out))
        r['own_violation']=any(l.startswith('VIOLATION') for l in o.splitlines()); r['rc']=rc
    finally:
        sh(['git','-C','/repo','worktree','remove','--force',wt]); shutil.rmtree(out,ignore_errors=True)
    return r
ids=sorted(os.listdir('/verif/seeded'))
os.makedirs('/tmp/mut/rv',exist_ok=True)
with ThreadPoolExecutor(max_workers=int(sys.argv[1]) if len(sys.argv)>1 else 4) as ex:
    res=list(ex.map(one,ids))
json.dump(res,open('/tmp/mut/reverify.json','w'),indent=1)
for r in res:
    ok=r.get('applies') and r.get('builds') and r.get('suite') and r.get('demo_fails') and r.get('demo_clean_passes') and r.get('own_violation')
    if not ok: print(r)
print('done',len(res))

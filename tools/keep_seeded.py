#!/usr/bin/env python3
"""Copy confirmed seeded changes from a mutmatrix output directory into /verif/seeded/<id>/."""
import json, os, shutil, sys

VERIF = os.path.dirname(os.path.dirname(os.path.abspath(__file__)))
root = sys.argv[1]
prefix = sys.argv[2] if len(sys.argv) > 2 else ""
kept = []
for prop in sorted(os.listdir(root)):
    d = os.path.join(root, prop)
    if not os.path.isdir(d):
        continue
    for v in "abcd":
        rp = os.path.join(d, "result_%s.json" % v)
        if not os.path.exists(rp):
            continue
        r = json.load(open(rp))
        ok = r.get("suite_passes") and r.get("builds") and r.get("demo_fails_with_change") and r.get("demo_passes_without_change")
        if not ok:
            print("NOT KEPT %s%s: %s" % (prop, v, {k: r.get(k) for k in ("builds", "suite_passes", "demo_fails_with_change", "demo_passes_without_change")}))
            continue
        sid = "%s%s%s" % (prefix, prop, v)
        dst = os.path.join(VERIF, "seeded", sid)
        os.makedirs(dst, exist_ok=True)
        shutil.copyfile(os.path.join(d, v + ".diff"), os.path.join(dst, "patch.diff"))
        shutil.copyfile(os.path.join(d, "demo_%s_test.go" % v), os.path.join(dst, "demo_test.go"))
        meta = {}
        mp = os.path.join(d, "meta_%s.json" % v)
        if os.path.exists(mp):
            try:
                meta = json.load(open(mp))
            except Exception:
                meta = {"raw": open(mp).read()}
        out = {
            "id": sid,
            "property_targeted": prop if prop.startswith("C") and len(prop) == 3 else meta.get("property", prop),
            "summary": meta.get("summary", ""),
            "needs_to_manifest": meta.get("needs_to_manifest", ""),
            "author": "independent sub-agent given only the property text and a scratch worktree",
            "confirmed": {
                "base_commit": "/repo HEAD at evaluation time",
                "builds": r.get("builds"), "existing_suite_passes_with_change": r.get("suite_passes"),
                "demo_fails_with_change": r.get("demo_fails_with_change"), "demo_passes_without_change": r.get("demo_passes_without_change"),
                "how": "tools/mutmatrix.py: scratch git worktree of /repo under /tmp/mut/eval, git apply patch.diff, go build ./..., go test -vet=off -count=1 ./..., demo placed in the repo root as zz_seeded_demo_test.go and run with and without the change; then ./check <Cxx> --tier quick with VERIF_REPO pointing at the worktree",
            },
            "checks_quick_tier": {p: ("VIOLATION" if c["violation"] else "inconclusive" if c["rc"] == 2 else "silent") for p, c in r.get("checks", {}).items()},
            "caught_by": r.get("caught_by", []),
        }
        json.dump(out, open(os.path.join(dst, "meta.json"), "w"), indent=1, ensure_ascii=False)
        kept.append((sid, out["caught_by"]))
for sid, c in kept:
    print(sid, c)

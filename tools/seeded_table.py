#!/usr/bin/env python3
"""Print DESIGN §12 table rows for the seeded changes whose id starts with a prefix."""
import glob, json, os, sys
VERIF = os.path.dirname(os.path.dirname(os.path.abspath(__file__)))
prefix = sys.argv[1] if len(sys.argv) > 1 else ""
for f in sorted(glob.glob(os.path.join(VERIF, "seeded", prefix + "*", "meta.json"))):
    m = json.load(open(f))
    s = m.get("summary", "").replace("|", "//").replace("\n", " ")[:150]
    c = ", ".join(m.get("caught_by", [])) or "(not caught)"
    print("| %s | %s | %s | %s |" % (m["id"], m["property_targeted"][:3], s, c))

#!/usr/bin/env python3
"""Regenerates MANIFEST.json from plan.py (PLAN + CLAIMS). Run after editing plan.py."""
import json, os, sys
sys.path.insert(0, os.path.dirname(os.path.abspath(__file__)))
from plan import PLAN, CLAIMS, NOT_APPLICABLE, HOOK_COMMITS

ALL = ["C%02d" % i for i in range(1, 18)]
checks = []
for pid in ALL:
    if pid not in PLAN or pid not in CLAIMS:
        continue
    c = CLAIMS[pid]
    checks.append({
        "property_id": pid,
        "quick_cmd": "./check %s --tier quick" % pid,
        "thorough_cmd": "./check %s --tier thorough" % pid,
        "evidence_file": "evidence/%s.json" % pid,
        "replay_cmd_template": "./check %s --replay {path}" % pid,
        "engine": "harness",
        "level_claimed": {"category": "exploration", "text": c["text"], "design_ref": c["design_ref"]},
        "level_note": c["note"],
        "technique": c["technique"],
    })
na = [{"property_id": pid, "reason": NOT_APPLICABLE.get(pid, "check not built yet in this session (planned, see DESIGN.md section 4)")}
      for pid in ALL if pid not in PLAN or pid not in CLAIMS]
man = {
    "version": 1,
    "setup_cmd": "./check --setup",
    "hooks": {
        "guard": "verif",
        "enable": "Go build tag: the harness is built with `go test -c -tags verif` against /repo through a replace directive (add-only files *verif_hooks.go)",
        "baseline_off_cmd": "cd /repo && GOFLAGS=-mod=mod GOPROXY=off GOTOOLCHAIN=local go test -json -vet=off -count=1 -timeout 25m ./...",
        "source_commits": HOOK_COMMITS,
        "add_only": True,
    },
    "engines": [{
        "name": "harness",
        "path": "harness/",
        "serves_properties": [c["property_id"] for c in checks],
        "kind_free_text": "Go test module (pgregory.net/rapid v1.3.0 property-based generators with shrinking, bounded exhaustive enumerators, native go fuzz targets in the thorough tier) driven by the python3 driver ./check; specs are JSON documents replayable without rapid",
    }],
    "checks": checks,
    "notes": "Technique family: property-based testing and fuzzing. Every check decides its property by generated-input search against an explicit oracle (reference model, differential against the toolchain's fmt, two-run relation, algebraic law). See DESIGN.md. known_findings.json lists genuine defects (open / fixed).",
    "not_applicable": na,
}
json.dump(man, open(os.path.join(os.path.dirname(os.path.abspath(__file__)), "MANIFEST.json"), "w"), indent=1)
print("MANIFEST.json: %d checks, %d not claimed" % (len(checks), len(na)))
